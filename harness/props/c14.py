"""C14 — assignment solver: correspondence of Model/Hungarian.v with
qcelemental.util.scipy_hungarian.linear_sum_assignment(cost, return_cost=True) on full state traces
(C, covers, marks, Z0 and the next step after every _stepN call of the real driver), and the property
oracle (brute force / dual certificate) evaluated directly on the implementation's answers."""
import itertools
import multiprocessing
import signal
from fractions import Fraction

import numpy as np

from .. import coqrun, histseq, histshrink
from ..core import Corr
from ..coqrun import cz, cnat, clist, cbool

PID = "C14"
ALLOWED_AXIOMS = set()
REQ = ["QV.Common.Outcome", "QV.Model.Hungarian"]
DP = (1 << 64) - 1
DB = 1048583
NPROC = coqrun.NPROC


def translate(ctx):
    from ..translate import hungglue
    return hungglue.generate(ctx.repo)


# ----------------------------------------------------------------------------------------------
# running the implementation with its state machine instrumented

class _Timeout(Exception):
    pass


def _alarm(signum, frame):
    raise _Timeout()


def _dstep(h, x):
    return (h * DB + x + 1) & DP


def _scale(slog):
    """2**slog as an exact number (slog may be negative: huge binary floating-point entries)"""
    return (1 << slog) if slog >= 0 else Fraction(1, 1 << -slog)


def _to_ints(arr, scale):
    """exact integers of arr*scale (arr integer/bool or binary floating point with dyadic entries, any width, byte
    order and memory layout); None if not integral"""
    if arr.dtype.kind in "iub":
        vals = arr.astype(object).ravel().tolist()
        if scale == 1:
            return [int(v) for v in vals]
        frs = [int(v) * Fraction(scale) for v in vals]
        return None if any(f.denominator != 1 for f in frs) else [int(f) for f in frs]
    if arr.dtype.kind != "f":
        return None
    out = []
    for v in arr.ravel().tolist():
        f = float(v)
        if f != v or f != f or f in (float("inf"), float("-inf")):
            return None
        fr = Fraction(f) * scale
        if fr.denominator != 1:
            return None
        out.append(int(fr))
    return out


# ---- array construction: element type and memory layout --------------------------------------------------------
# kind = base[/layout].  base: "int" (numpy's default integer), "bool", "dyadic" (binary64 = integer / 2**slog), or a
# numpy dtype string (int8 .. uint64, float16/32/64, longdouble, explicit byte order such as ">i4"); floating-point
# bases hold integer / 2**slog.  layout: C (default), F (Fortran order), strided (every 2nd row / 3rd column of a larger
# array), neg (negative strides on both axes), Fneg (Fortran order, negative row stride), offset (a window of a larger
# array), readonly (writeable flag cleared), T (transpose view of a C array).

LAYOUTS = ["C", "F", "strided", "neg", "Fneg", "offset", "readonly", "T"]


def _parse_kind(kind):
    base, _, layout = kind.partition("/")
    return base, (layout or "C")


def _layout(a, layout):
    n, m = a.shape
    if layout == "C":
        return a
    if layout == "F":
        return np.asfortranarray(a)
    if layout == "T":
        return np.ascontiguousarray(a.T).T
    if layout == "strided":
        big = np.ones((2 * n + 1, 3 * m + 2), dtype=a.dtype)
        v = big[1::2, 2::3]
        v[...] = a
        return v
    if layout == "neg":
        return np.ascontiguousarray(a[::-1, ::-1])[::-1, ::-1]
    if layout == "Fneg":
        return np.asfortranarray(a[::-1, :])[::-1, :]
    if layout == "offset":
        big = np.ones((n + 3, m + 2), dtype=a.dtype)
        v = big[2:2 + n, 1:1 + m]
        v[...] = a
        return v
    if layout == "readonly":
        b = a.copy()
        b.flags.writeable = False
        return b
    raise ValueError("unknown layout " + layout)


def _mkarr(matrix, kind, slog):
    base, layout = _parse_kind(kind)
    if base == "bool":
        arr = np.array(matrix, dtype=bool)
    elif base == "dyadic":
        arr = np.ldexp(np.array(matrix, dtype=float), -slog)
    elif base == "int":
        arr = np.array(matrix, dtype=int)
    else:
        dt = np.dtype(base)
        if dt.kind == "f":
            arr = np.ldexp(np.array(matrix, dtype=np.float64), -slog).astype(dt)
        else:
            arr = np.array(matrix, dtype=dt)
    if arr.ndim == 1 and len(matrix) == 0:
        arr = arr.reshape(0, 0)
    if arr.ndim == 2 and layout != "C":
        arr = _layout(arr, layout)
    if kind not in ("int", "bool"):
        # the array must hold exactly the integers the model is run on (generator obligation)
        want = [(1 if x else 0) if base == "bool" else x for r in matrix for x in r]
        if _to_ints(arr, _scale(slog) if arr.dtype.kind == "f" else 1) != want:
            raise AssertionError(f"{kind}: matrix is not exactly representable")
    return arr


def impl_run(matrix, kind="int", slog=0, want_trace=False, limit=5.0):
    """Run linear_sum_assignment(cost, return_cost=True) with every module-level _stepN wrapped so that the
    state after each step of the *real* driver loop is recorded.  `matrix` holds exact integers; the array handed
    to the implementation is int (kind int), bool (kind bool) or float64 = matrix / 2**slog (kind dyadic).
    Returns ("Ok", rows, cols, R_ints, nsteps, digest[, trace]) or ("Err", exception class name)."""
    import qcelemental.util.scipy_hungarian as H
    arr = _mkarr(matrix, kind, slog)
    scale = _scale(slog) if arr.dtype.kind == "f" else 1
    names = [k for k in vars(H) if k.startswith("_step") and callable(getattr(H, k))]
    orig = {k: getattr(H, k) for k in names}
    rec = {"h": 7, "n": 0, "bad": None, "trace": []}
    kdim = min(arr.shape) if arr.ndim == 2 else 0
    # the model provably needs at most (k+2)(2k+8) driver steps (C14_terminates); far beyond that = non-termination
    max_steps = 4 * (kdim + 2) * (2 * kdim + 8) + 50

    def wrap(fn):
        def w(state):
            nxt = fn(state)
            rec["n"] += 1
            if rec["n"] > max_steps:
                raise _Timeout()
            code = 0 if nxt is None else int(getattr(nxt, "__name__", "_step99")[5:])
            cints = _to_ints(state.C, scale)
            if cints is None:
                rec["bad"] = "non-dyadic intermediate value"
                cints = [0] * state.C.size
            words = ([code, int(state.Z0_r), int(state.Z0_c)] + cints
                     + [int(b) for b in state.row_uncovered.tolist()]
                     + [int(b) for b in state.col_uncovered.tolist()]
                     + [int(v) for v in state.marked.ravel().tolist()])
            h = rec["h"]
            for x in words:
                h = (h * DB + x + 1) & DP
            rec["h"] = h
            if want_trace:
                n, m = state.C.shape
                rec["trace"].append((code, int(state.Z0_r), int(state.Z0_c),
                                     [cints[i * m:(i + 1) * m] for i in range(n)],
                                     [bool(b) for b in state.row_uncovered.tolist()],
                                     [bool(b) for b in state.col_uncovered.tolist()],
                                     [[int(v) for v in r] for r in state.marked.tolist()]))
            return nxt
        w.__name__ = fn.__name__
        return w

    old = signal.signal(signal.SIGVTALRM, _alarm)
    signal.setitimer(signal.ITIMER_VIRTUAL, limit)
    try:
        for k in names:
            setattr(H, k, wrap(orig[k]))
        try:
            import qcelemental.util as U
            before = arr.copy()
            (rows, cols), R = U.linear_sum_assignment(arr, return_cost=True)     # the public, module-level name
            if arr.shape != before.shape or arr.dtype != before.dtype or not np.array_equal(arr, before):
                rec["bad"] = "the caller's cost matrix was modified"
        except _Timeout:
            return ("Err", "Timeout")
        except Exception as e:
            return ("Err", type(e).__name__)
    finally:
        signal.setitimer(signal.ITIMER_VIRTUAL, 0)
        signal.signal(signal.SIGVTALRM, old)
        for k in names:
            setattr(H, k, orig[k])
    R = np.asarray(R)
    rints = _to_ints(R, scale)
    if rec["bad"] == "the caller's cost matrix was modified":
        return ("Err", "InputModified")
    if rints is None or rec["bad"]:
        return ("Err", "NonDyadic")
    if R.ndim != 2:
        return ("Err", "BadReducedShape")
    Rl = [[int(x) for x in r] for r in np.array(rints, dtype=object).reshape(R.shape).tolist()]
    rows = [int(x) for x in np.asarray(rows).tolist()]
    cols = [int(x) for x in np.asarray(cols).tolist()]
    h = rec["h"]
    for x in rows + cols + [v for r in Rl for v in r]:
        h = _dstep(h, x)
    out = ("Ok", rows, cols, Rl, rec["n"], h)
    if want_trace:
        out = out + (rec["trace"],)
    return out


def impl_variants(matrix, kind, slog, out, limit=5.0):
    """the other ways of calling the solver on the same matrix, uninstrumented, after the instrumented run:
    return_cost omitted / False (pairs only), a nested list instead of an array, the defining module's name, and the
    return_cost=True call once more (history).  All must give the pairs (and reduced matrix) of the first run.
    Returns None or a description."""
    if out[0] != "Ok":
        return None
    import qcelemental.util as U
    import qcelemental.util.scipy_hungarian as H
    rows, cols, R = out[1], out[2], out[3]
    old = signal.signal(signal.SIGVTALRM, _alarm)
    signal.setitimer(signal.ITIMER_VIRTUAL, limit)
    try:
        arr = _mkarr(matrix, kind, slog)
        scale = _scale(slog) if arr.dtype.kind == "f" else 1
        for label, call in (("return_cost omitted", lambda: U.linear_sum_assignment(arr)),
                            ("return_cost=False", lambda: H.linear_sum_assignment(arr, return_cost=False)),
                            ("nested-list input", lambda: U.linear_sum_assignment(arr.tolist()) if arr.size else U.linear_sum_assignment(arr))):
            res = call()
            if not (isinstance(res, tuple) and len(res) == 2):
                return f"{label}: result is not a (row_ind, col_ind) pair"
            r2, c2 = [int(x) for x in np.asarray(res[0]).tolist()], [int(x) for x in np.asarray(res[1]).tolist()]
            if r2 != rows or c2 != cols:
                return f"{label}: pairs {r2},{c2} differ from those of return_cost=True {rows},{cols}"
        (r3, c3), R3 = H.linear_sum_assignment(arr, return_cost=True)
        R3i = _to_ints(np.asarray(R3), scale)
        flat = [v for r in R for v in r]
        if [int(x) for x in r3.tolist()] != rows or [int(x) for x in c3.tolist()] != cols or R3i != flat:
            return "a second return_cost=True call on the same matrix gave a different answer"
        # the returned arrays are the caller's to change: that must reach neither the caller's matrix nor later answers
        keep = arr.copy()
        for a in (np.asarray(R3), r3, c3):
            if isinstance(a, np.ndarray) and a.size and a.flags.writeable:
                a += 3
        if not np.array_equal(arr, keep):
            return "changing the returned arrays changed the caller's cost matrix (the result aliases the input)"
        (r4, c4), R4 = U.linear_sum_assignment(arr, return_cost=True)
        if [int(x) for x in r4.tolist()] != rows or [int(x) for x in c4.tolist()] != cols or _to_ints(np.asarray(R4), scale) != flat:
            return "changing the arrays returned by one call changed the answer of the next call on the same matrix"
    except _Timeout:
        return "variant call did not terminate"
    except Exception as e:
        return f"variant call raised {type(e).__name__}"
    finally:
        signal.setitimer(signal.ITIMER_VIRTUAL, 0)
        signal.signal(signal.SIGVTALRM, old)
    return None


_HIST = []      # ids of the jobs this (worker) process has run so far, in order: the call history of a failing case


def _work(job):
    idx, matrix, kind, slog = job
    _HIST.append(idx)
    out = impl_run(matrix, kind, slog)
    bad = oracle(matrix, out) or impl_variants(matrix, kind, slog, out)
    return out, bad, (list(_HIST) if bad else None)


def run_history(steps):
    """histseq interface: the steps (case dicts) one after the other in this interpreter; complaints about the LAST one"""
    bad = None
    for c in steps:
        out = impl_run(c["matrix"], c["kind"], c["scale_log2"])
        bad = oracle(c["matrix"], out) or impl_variants(c["matrix"], c["kind"], c["scale_log2"], out)
    return [bad] if bad else []


# ----------------------------------------------------------------------------------------------
# the property oracle on the implementation's answer

def brute_min(C):
    """minimum cost over all complete assignments (min(n,m) pairs, no row/col repeated); exact DP over column
    subsets for the wide orientation; plain enumeration of permutations for tiny matrices (independent check)."""
    n = len(C)
    m = len(C[0]) if n else 0
    if n == 0 or m == 0:
        return 0
    if n > m:
        C = [[C[i][j] for i in range(n)] for j in range(m)]
        n, m = m, n
    if m <= 5:
        return min(sum(C[i][p[i]] for i in range(n)) for p in itertools.permutations(range(m), n))
    best = {0: 0}
    for i in range(n):
        nxt = {}
        for mask, c in best.items():
            for j in range(m):
                if not (mask >> j) & 1:
                    k = mask | (1 << j)
                    v = c + C[i][j]
                    if k not in nxt or v < nxt[k]:
                        nxt[k] = v
        best = nxt
    return min(best.values())


def py_check_cert(C, rows, cols, R):
    """Python mirror of Model/Hungarian.v check_cert; returns None or the failed clause."""
    n = len(C)
    m = len(C[0]) if n else 0
    k = min(n, m)
    if any(len(r) != m for r in C):
        return "cost matrix not rectangular"
    if len(R) != n or any(len(r) != m for r in R):
        return "reduced matrix has the wrong shape"
    if len(rows) != k or len(cols) != k:
        return "number of pairs is not min(rows, columns)"
    if any(not (a < b) for a, b in zip(rows, rows[1:])):
        return "row indices not strictly increasing"
    if len(set(cols)) != len(cols):
        return "a column is used twice"
    if any(not (0 <= i < n) for i in rows) or any(not (0 <= j < m) for j in cols):
        return "index out of range"
    if any(x < 0 for r in R for x in r):
        return "reduced matrix has a negative entry"
    if any(R[i][j] != 0 for i, j in zip(rows, cols)):
        return "reduced matrix is not zero on a chosen pair"
    if n == 0 or m == 0:
        return None
    D = [[C[i][j] - R[i][j] for j in range(m)] for i in range(n)]
    u = [D[i][0] for i in range(n)]
    v = [D[0][j] - D[0][0] for j in range(m)]
    if any(D[i][j] != u[i] + v[j] for i in range(n) for j in range(m)):
        return "reduced matrix differs from the input by more than row and column constants"
    cs, rs = set(cols), set(rows)
    if any(j not in cs and v[j] < max(v) for j in range(m)):
        return "an unassigned column does not carry the maximal column constant (optimal assignments off the zeros)"
    if any(i not in rs and u[i] < max(u) for i in range(n)):
        return "an unassigned row does not carry the maximal row constant (optimal assignments off the zeros)"
    return None


def oracle(matrix, out, brute_limit=8):
    """the property, on the implementation's answer for a finite matrix (exact integers)."""
    if out[0] == "Err":
        if out[1] == "InputModified":
            return "the caller's cost matrix was modified by the call"
        return f"finite matrix refused or crashed: {out[1]}"
    rows, cols, R = out[1], out[2], out[3]
    bad = py_check_cert(matrix, rows, cols, R)
    n = len(matrix)
    m = len(matrix[0]) if n else 0
    structural = bad is not None and not bad.startswith("an unassigned")
    if structural:
        return bad
    if n <= brute_limit and m <= brute_limit:
        got = sum(matrix[i][j] for i, j in zip(rows, cols))
        best = brute_min(matrix)
        if got != best:
            return f"total cost {got} is not the minimum {best}"
        if n and m and max(n, m) <= 5:
            # every optimal complete assignment lies on zeros of R
            T = matrix if n <= m else [[matrix[i][j] for i in range(n)] for j in range(m)]
            RT = R if n <= m else [[R[i][j] for i in range(n)] for j in range(m)]
            a, b = min(n, m), max(n, m)
            for p in itertools.permutations(range(b), a):
                if sum(T[i][p[i]] for i in range(a)) == best and any(RT[i][p[i]] != 0 for i in range(a)):
                    return "an optimal assignment does not lie on the zeros of the reduced matrix"
    return bad


# ----------------------------------------------------------------------------------------------
# Gallina rendering

def cmat(M):
    return clist(M, lambda r: clist(r, cz))


def cresult(out):
    if out[0] == "Ok":
        return "(Ok (%s, %s, %s))" % (clist(out[1], cnat), clist(out[2], cnat), cmat(out[3]))
    kind = {"ValueError": "PyValueError", "IndexError": "PyIndexError", "TypeError": "PyTypeError"}.get(out[1], "PyAssertion")
    return f"(Err {kind})"


def full_term(matrix, out):
    cnt, dg = (out[4], out[5]) if out[0] == "Ok" else (0, 0)
    return "(%s, %s, %s, %s)" % (cmat(matrix), cresult(out), cz(cnt), cz(dg))


def enum_matrix(n, m, b, k):
    digs = []
    for _ in range(n * m):
        digs.append(k % b)
        k //= b
    return [digs[i * m:(i + 1) * m] for i in range(n)]


# ----------------------------------------------------------------------------------------------
# generators

CORPUS = [
    [[4, 1, 3], [2, 0, 5], [3, 2, 2]],
    [[400, 150, 400], [400, 450, 600], [300, 225, 300]],
    [[400, 150, 400, 1], [400, 450, 600, 2], [300, 225, 300, 3]],
    [[10, 10, 8], [9, 8, 1], [9, 7, 4]],
    [[10, 10, 8, 11], [9, 8, 1, 1], [9, 7, 4, 10]],
    [[400, 400, 300], [150, 450, 225], [400, 600, 300], [1, 2, 3]],
    [[], []],
    [],
    [[0]],
    [[-7]],
    [[1, 1], [1, 1]],
    [[0, 0, 0, 0], [0, 0, 0, 0], [0, 0, 0, 0]],
    [[1, 0, 0, 1], [0, 1, 1, 1], [0, 1, 1, 1], [1, 1, 0, 0]],
    [[0, 0, 1, 1], [0, 0, 1, 1], [1, 1, 0, 1], [1, 1, 1, 0]],
    [[-3, -1, -4, -1], [-5, -9, -2, -6], [-5, -3, -5, -8]],
    [[5, 5, 5], [5, 5, 5], [1, 2, 3], [1, 2, 3], [0, 0, 0]],
    [[7, 2, 1, 9, 4], [9, 6, 9, 5, 5], [3, 8, 3, 1, 8], [7, 9, 4, 2, 2], [8, 4, 7, 4, 8]],
]


def rand_matrix(rng, lo, hi):
    n = rng.randint(lo, hi)
    m = rng.randint(lo, hi)
    if rng.random() < 0.65:        # near-square shapes of the larger sizes need the augmenting steps far more often
        n = rng.randint(max(lo, (lo + hi) // 2), hi)
        m = min(hi, max(lo, n + rng.choice([-1, 0, 0, 0, 1])))
    style = rng.choice(["tiny", "tiny", "signed", "wide", "big", "duprow", "dupcol", "const", "diag", "struct",
                        "product", "product", "ranked", "binary"])
    if style == "tiny":
        M = [[rng.randint(0, 3) for _ in range(m)] for _ in range(n)]
    elif style == "signed":
        M = [[rng.randint(-5, 5) for _ in range(m)] for _ in range(n)]
    elif style == "wide":
        M = [[rng.randint(0, 100) for _ in range(m)] for _ in range(n)]
    elif style == "big":
        M = [[rng.randint(-10 ** 6, 10 ** 6) for _ in range(m)] for _ in range(n)]
    elif style == "duprow":
        base = [[rng.randint(0, 9) for _ in range(m)] for _ in range(max(1, n // 2))]
        M = [list(rng.choice(base)) for _ in range(n)]
    elif style == "dupcol":
        base = [[rng.randint(-4, 9) for _ in range(n)] for _ in range(max(1, m // 2))]
        colsel = [rng.choice(base) for _ in range(m)]
        M = [[colsel[j][i] for j in range(m)] for i in range(n)]
    elif style == "product":      # (i+1)(j+1)-like: the classical many-augmentations instance, with ties
        a = rng.choice([1, 1, 2])
        M = [[(i // a + 1) * (j // a + 1) * rng.choice([1, 1, 1, -1]) for j in range(m)] for i in range(n)]
    elif style == "ranked":       # every row prefers the same columns
        base = sorted(rng.randint(0, 6) for _ in range(m))
        M = [[base[j] + (i if rng.random() < 0.7 else 0) for j in range(m)] for i in range(n)]
    elif style == "binary":
        pz = rng.choice([0.2, 0.4, 0.6])
        M = [[0 if rng.random() < pz else 1 for _ in range(m)] for _ in range(n)]
    elif style == "const":
        c = rng.randint(-3, 3)
        M = [[c for _ in range(m)] for _ in range(n)]
    elif style == "diag":
        M = [[0 if (i + j) % max(2, min(n, m)) == 0 else rng.randint(0, 2) for j in range(m)] for i in range(n)]
    else:
        u = [rng.randint(-5, 5) for _ in range(n)]
        v = [rng.randint(-5, 5) for _ in range(m)]
        M = [[u[i] + v[j] + rng.choice([0, 0, 0, 1, 2]) for j in range(m)] for i in range(n)]
    return M


# element types of the dtype stream: name -> (smallest, largest exactly usable integer).  For the floating-point types
# the bound is the width of the significand (every integer up to it, times 2**-slog, is exact); INTERMEDIATE values of
# the solver stay within [0, (k+2) r] for a k-row (after transposition) matrix whose entries span a range r -- after
# _step1 the entries lie in [0, r]; every _step6 raises the dual objective by at least its minval, and the objective is
# bounded by the cost k r of any assignment, so all minvals together add at most k r to an entry, plus one more r for the
# "add to covered rows, then subtract from uncovered columns" transient -- so with (k+2) r <= largest nothing wraps
# around or rounds in the UNCHANGED code (int8 r <= 12 at k = 8; the generator enforces it with _fit).
INT_TYPES = ["int8", "int16", "int32", "int64", "uint8", "uint16", "uint32", "uint64", ">i2", ">i4", ">i8", ">u2", ">u4", ">u8"]
FLT_TYPES = {"float16": (11, -4, 24), "float32": (24, -100, 149), "float64": (52, -960, 1074), ">f4": (24, -100, 149),
             ">f8": (52, -960, 1074), "longdouble": (52, -960, 1074)}       # significand bits, smallest / largest slog


def _bounds(base):
    if base in FLT_TYPES:
        b = 1 << FLT_TYPES[base][0]
        return -b, b
    if base == "bool":
        return 0, 1
    ii = np.iinfo(np.dtype(int if base == "int" else base))
    return int(ii.min), int(ii.max)


def _fit(rng, M, vmin, vmax):
    """M moved/folded into [vmin, vmax] with a spread r such that (k+2) r <= vmax (see above); ties are kept, the
    position of the window is the original one, the bottom, the top or anywhere in the type's range."""
    n, m = len(M), len(M[0])
    k = min(n, m)
    rmax = max(1, vmax // (k + 2)) if vmax > 1 else 1
    flat = [x for r in M for x in r]
    mn = min(flat)
    if max(flat) - mn > rmax:
        md = rmax + 1
        M = [[(x - mn) % md for x in r] for r in M]
        orig = None
    else:
        M = [[x - mn for x in r] for r in M]
        orig = mn
    r2 = max(x for r in M for x in r)
    where = rng.choice(["orig", "orig", "low", "high", "any"])
    if where == "orig":
        lo = min(max(vmin, orig if orig is not None else -(r2 // 2)), vmax - r2)
    elif where == "low":
        lo = vmin
    elif where == "high":
        lo = vmax - r2
    else:
        lo = rng.randint(vmin, vmax - r2)
    return [[x + lo for x in r] for r in M]


def dtype_jobs(ctx):
    """every integer / unsigned / boolean / binary floating-point element type (narrow and wide, both byte orders), in
    every memory layout, far from and near the origin, tiny and huge scales"""
    rng = ctx.rng
    jobs = []
    bases = INT_TYPES + list(FLT_TYPES) + ["bool", "int", "dyadic"]
    per = 24 if ctx.thorough else 6
    for base in bases:
        for layout in LAYOUTS:
            for t in range(per):
                M = rand_matrix(rng, 1, 4 if t % 3 == 0 else 6)
                slog = 0
                if base == "bool":
                    M = [[1 if x > 1 else 0 for x in r] for r in M]
                else:
                    fb = "float64" if base == "dyadic" else base
                    vmin, vmax = _bounds(fb)
                    M = _fit(rng, M, vmin, vmax)
                    if fb in FLT_TYPES:
                        _bits, smin, smax = FLT_TYPES[fb]
                        slog = rng.choice([0, 0, 1, 3, smin, smax, rng.randint(smin, smax)])
                jobs.append(("dtype", M, base if layout == "C" else f"{base}/{layout}", slog))
    # zero-dimensional and single-entry matrices of every type
    for base in bases:
        for M in ([], [[], []], [[0]], [[1]]):
            jobs.append(("dtype", M, base, 0))
    return jobs


def wrap_cases(ctx):
    """signed integer matrices one of whose working rows spans more than the element type holds (known finding
    C14-narrow-int-wraparound): judged by the oracle only -- the model works over Z.  (matrix, kind)"""
    rng = ctx.rng
    out = []
    for base in ("int8", "int16", "int32", "int64", ">i2", "int"):
        lo, hi = _bounds(base)
        out += [([[hi, lo], [lo, hi]], base), ([[hi, lo, 0], [0, 1, 2]], base), ([[hi, 0], [lo, 1], [0, 2]], base)]
        for _ in range(6 if ctx.thorough else 2):
            n, m = rng.randint(2, 4), rng.randint(2, 4)
            M = [[rng.randint(lo, hi) for _ in range(m)] for _ in range(n)]
            M[0][0], M[0][1], M[1][0] = hi, lo, lo
            out.append((M, base + rng.choice(["", "/F", "/neg"])))
    return out


def _known_wrap(f):
    """a signed integer matrix whose _step1 subtraction itself leaves the element type: some working row (row of the
    wide orientation) has max - min > the type's largest value"""
    c = f.get("case") or {}
    if not isinstance(c.get("kind"), str) or not isinstance(c.get("matrix"), list):
        return False
    base = _parse_kind(c["kind"])[0]
    if base in ("bool", "dyadic") or base in FLT_TYPES or np.dtype(int if base == "int" else base).kind != "i":
        return False
    M = c["matrix"]
    if not M or not M[0]:
        return False
    W = M if len(M) <= len(M[0]) else [list(col) for col in zip(*M)]
    return any(max(r) - min(r) > _bounds(base)[1] for r in W)


def gen_jobs(ctx):
    """list of (stream, matrix, kind, slog)"""
    rng = ctx.rng
    jobs = [("corpus", M, "int", 0) for M in CORPUS]
    jobs += [("corpus", [[1 if x % 2 else 0 for x in r] for r in M], "bool", 0) for M in CORPUS[:6]]
    nr = 12000 if ctx.thorough else 2500
    for _ in range(nr):
        jobs.append(("rand8", rand_matrix(rng, 1, 8), "int", 0))
    for _ in range(nr // 4):
        M = rand_matrix(rng, 1, 6)
        jobs.append(("bool", [[1 if x > 1 else 0 for x in r] for r in M], "bool", 0))
    for _ in range(nr // 2):
        slog = rng.choice([1, 2, 3, 8, 20])
        jobs.append(("dyadic", rand_matrix(rng, 1, 8), "dyadic", slog))
    nb = 160 if ctx.thorough else 40
    for k in range(nb):
        hi = 40 if k % 4 == 0 else 24
        M = rand_matrix(rng, 9, hi)
        jobs.append(("upto40", M, "int" if k % 3 else "dyadic", 0 if k % 3 else 4))
    for n, m in itertools.product(range(0, 4), range(0, 4)):
        if n == 0 or m == 0:
            jobs.append(("zero-dim", [[] for _ in range(n)], "int", 0))
    jobs += dtype_jobs(ctx)
    return jobs


def gen_enum(ctx):
    """(stream, n, m, base, k) for the enumerated spaces"""
    out = []
    for n, m in itertools.product(range(1, 4), range(1, 4)):
        out += [("enum3", n, m, 3, k) for k in range(3 ** (n * m))]
    if ctx.thorough:
        ks = range(1 << 16)
    else:
        # a fixed half (every 2nd matrix, offset by the seed) of the 65,536 4x4 0/1 matrices
        ks = range(ctx.seed % 2, 1 << 16, 2)
    out += [("bin4", 4, 4, 2, k) for k in ks]
    return out


def _work_enum(job):
    idx, _stream, n, m, b, k = job
    _HIST.append(idx)
    M = enum_matrix(n, m, b, k)
    out = impl_run(M)
    bad = oracle(M, out) or impl_variants(M, "int", 0, out)
    return out, bad, (list(_HIST) if bad else None)


REFUSALS = [
    ("inf", [[1.0, float("inf")], [2.0, 3.0]]),
    ("-inf", [[1.0, 2.0], [float("-inf"), 3.0]]),
    ("nan", [[float("nan"), 2.0], [1.0, 3.0]]),
    ("nan-rect", [[1.0, 2.0, 3.0], [1.0, float("nan"), 3.0]]),
    ("inf-tall", [[1.0], [float("inf")], [2.0]]),
    ("all-inf", [[float("inf")] * 3] * 3),
]


def mk_refuse(obj, dtype=None, layout=None):
    """the object handed to the implementation: obj itself, or the array of the given element type and layout"""
    if dtype is None:
        return obj
    if dtype == "object":
        # an array of Python objects (the entries stay what they are: text, bytes, Python numbers)
        a = np.empty((len(obj), len(obj[0])), dtype=object)
        for i, r in enumerate(obj):
            for j, x in enumerate(r):
                a[i, j] = x
        return _layout(a, layout or "C")
    a = np.array(obj, dtype=np.float64).astype(np.dtype(dtype))
    return _layout(a, layout or "C")


# arrays of Python objects.  Entries that are text or bytes are not numbers, whatever float() would make of them: such a
# matrix must be refused (labels object-text*).  An object array all of whose entries are genuine Python numbers (int of any
# size, float, Fraction, Decimal, bool) is numeric: the code at /repo HEAD refuses it with ValueError as well (the element
# type is not a numpy number type); the refusal clause does not demand that, so for the label in NUMERIC_OBJECT a solved call
# is accepted too, and only a crash (any other exception) or a hang is a failure.
NUMERIC_OBJECT = {"object-numbers"}
_TEXT_FORMS = [lambda v: str(v), lambda v: str(float(v)), lambda v: " %d " % v, lambda v: "%de0" % v, lambda v: "%+d" % v,
               lambda v: str(v).encode(), lambda v: (" %d\n" % v).encode(), lambda v: "%d.0" % v,
               lambda v: "".join(chr(0x660 + int(ch)) if ch.isdigit() else ch for ch in str(v)),      # Arabic-Indic digits
               lambda v: "%.1e" % v, lambda v: ("%d.50" % v).encode(), lambda v: "0x%x" % abs(v), lambda v: "1_0"]


def _refusal_ok(lab, out):
    return out == ("Err", "ValueError") or (lab in NUMERIC_OBJECT and out == ("Ok",))


def object_cases(ctx):
    """object-dtype 2-d arrays: text / bytes entries that float() would parse (all entries, one among numbers, a random
    subset; square, wide, tall, 1 x 1; every memory layout) and arrays of genuine Python numbers"""
    from decimal import Decimal
    rng = ctx.rng
    cases = [("object-text", [["4", "1", "3"], ["2", "0", "5"], ["3", "2", "2"]], None, "object", "C"),
             ("object-text-one", [[4, 1, 3], [2, "0", 5]], None, "object", "C"),
             ("object-text", [[b"7", b"1"], [b"2", b"9"]], None, "object", "C"),
             ("object-text", [["0"]], None, "object", "C"),
             ("object-text-one", [[1.5, 2.0], [3.0, b"4"], [0.0, 1.0]], None, "object", "C")]
    for t in range(72 if ctx.thorough else 24):
        n, m = rng.randint(1, 5), rng.randint(1, 5)
        if rng.random() < 0.5:
            M = [[rng.randint(-3, 9) for _ in range(m)] for _ in range(n)]
        else:
            M = [[rng.choice([float(rng.randint(-3, 9)), rng.randint(0, 9) / 4, rng.randint(-3, 9)]) for _ in range(m)] for _ in range(n)]
        mode = t % 3
        if mode == 0:                                             # every entry is text
            f = rng.choice(_TEXT_FORMS[:6]) if rng.random() < 0.6 else None
            M = [[(f or rng.choice(_TEXT_FORMS))(int(x)) for x in r] for r in M]
            lab = "object-text"
        elif mode == 1:                                           # one text entry among numbers
            i, j = rng.choice([(0, 0), (n - 1, m - 1), (rng.randrange(n), rng.randrange(m))])
            M[i][j] = rng.choice(_TEXT_FORMS)(int(M[i][j]))
            lab = "object-text-one"
        else:                                                     # a random non-empty subset
            pos = [(i, j) for i in range(n) for j in range(m)]
            for i, j in rng.sample(pos, rng.randint(1, len(pos))):
                M[i][j] = rng.choice(_TEXT_FORMS)(int(M[i][j]))
            lab = "object-text-some"
        cases.append((lab, M, None, "object", rng.choice(LAYOUTS)))
    for t in range(24 if ctx.thorough else 8):
        n, m = rng.randint(1, 4), rng.randint(1, 4)
        mk = [lambda: rng.randint(-3, 9), lambda: rng.randint(-3, 9) + (1 << rng.choice([64, 70, 200])),
              lambda: Fraction(rng.randint(-9, 30), rng.randint(1, 7)), lambda: Decimal(rng.randint(-30, 90)) / Decimal(10),
              lambda: rng.randint(0, 9) / 4, lambda: bool(rng.getrandbits(1))]
        one = mk[t % len(mk)]
        M = [[(one if rng.random() < 0.7 else rng.choice(mk))() for _ in range(m)] for _ in range(n)]
        cases.append(("object-numbers", M, None, "object", rng.choice(LAYOUTS)))
    return cases


def _rcase(lab, obj, dtype=None, layout=None):
    c = {"kind": "refuse", "matrix": repr(obj), "label": lab}
    if dtype is not None:
        c.update(dtype=dtype, layout=layout or "C")
    return c


def refusal_cases(ctx):
    """(label, python object, cell matrix for the model or None[, element type, layout]): the object, or the array of
    that element type and layout made from it, is handed to the implementation"""
    cases = []
    for lab, M in REFUSALS:
        cases.append((lab, M, M))
    rng = ctx.rng
    for _ in range(60 if ctx.thorough else 20):
        n, m = rng.randint(1, 5), rng.randint(1, 5)
        M = [[float(rng.randint(-3, 9)) for _ in range(m)] for _ in range(n)]
        for _k in range(rng.randint(1, 3)):
            M[rng.randrange(n)][rng.randrange(m)] = rng.choice([float("inf"), float("-inf"), float("nan")])
        cases.append(("rand-nonfinite", M, M))
    # non-finite entries in arrays of every floating-point element type and memory layout (position, sign and the
    # number of offending entries vary; the -inf / +inf / nan entry may be the only one, the first, the last)
    flts = list(FLT_TYPES)
    for t in range(96 if ctx.thorough else 32):
        n, m = rng.randint(1, 5), rng.randint(1, 5)
        M = [[float(rng.randint(-3, 9)) for _ in range(m)] for _ in range(n)]
        bad = [float("-inf"), float("inf"), float("nan")][t % 3]              # every (entry, type) pair occurs
        pos = rng.choice([(0, 0), (n - 1, m - 1), (rng.randrange(n), rng.randrange(m))])
        M[pos[0]][pos[1]] = bad
        if rng.random() < 0.2:
            M[rng.randrange(n)][rng.randrange(m)] = rng.choice([float("inf"), float("-inf"), float("nan")])
        cases.append(("dtype-nonfinite", M, M, flts[(t // 3) % len(flts)], rng.choice(LAYOUTS)))
    cases.append(("ragged", [[1, 2], [3]], [[1.0, 2.0], [3.0]]))
    cases.append(("ragged3", [[1, 2, 3], [3, 4], [5, 6, 7]], [[1.0, 2.0, 3.0], [3.0, 4.0], [5.0, 6.0, 7.0]]))
    cases.append(("strings", [["a", "b"], ["c", "d"]], None))
    cases.append(("object", [[None, 1], [2, 3]], None))
    cases.append(("1-d", [1, 2, 3], None))
    cases.append(("3-d", [[[1, 2], [3, 4]]], None))
    cases.append(("scalar", 5, None))
    cases.append(("empty-1-d", [], None))
    cases.append(("none", None, None))
    cases.append(("string", "abc", None))
    cases.append(("bytes", [[b"a", b"b"], [b"c", b"d"]], None))
    cases.append(("mixed-str", [[1, "2"], [3, 4]], None))
    cases.append(("dict", {"a": 1}, None))
    cases.append(("nested-none", [[1.0, None], [2.0, 3.0]], None))
    cases.extend(object_cases(ctx))
    return cases


def impl_refuse(obj, limit=5.0):
    """the public call on an object that must be refused.  A call that does not return is bounded twice: every
    module-level _stepN is wrapped with a step counter (a finite n x m matrix provably needs at most (k+2)(2k+8) driver
    steps, so a run far beyond that is a spinning state machine) and a CPU-time alarm covers everything else; both are
    reported as ("Err", "Timeout"), i.e. as a failing input, never as a stuck check."""
    import warnings
    import qcelemental.util.scipy_hungarian as H
    names = [k for k in vars(H) if k.startswith("_step") and callable(getattr(H, k))]
    orig = {k: getattr(H, k) for k in names}
    try:
        shp = np.shape(obj)
    except Exception:
        shp = ()
    kdim = min(shp) if len(shp) == 2 else 0
    budget = [4 * (kdim + 2) * (2 * kdim + 8) + 50]

    def wrap(fn):
        def w(state):
            budget[0] -= 1
            if budget[0] < 0:
                raise _Timeout()
            return fn(state)
        w.__name__ = fn.__name__
        return w

    old = signal.signal(signal.SIGVTALRM, _alarm)
    signal.setitimer(signal.ITIMER_VIRTUAL, limit)
    try:
        for k in names:
            setattr(H, k, wrap(orig[k]))
        with warnings.catch_warnings():
            warnings.simplefilter("ignore")
            H.linear_sum_assignment(obj, return_cost=True)
    except _Timeout:
        return ("Err", "Timeout")
    except Exception as e:
        return ("Err", type(e).__name__)
    finally:
        signal.setitimer(signal.ITIMER_VIRTUAL, 0)
        signal.signal(signal.SIGVTALRM, old)
        for k in names:
            setattr(H, k, orig[k])
    return ("Ok",)


def ccell(x):
    if x != x:
        return "NaN"
    if x == float("inf"):
        return "PInf"
    if x == float("-inf"):
        return "NInf"
    assert float(x).is_integer()
    return f"(Fin {cz(int(x))})"


# ----------------------------------------------------------------------------------------------

def _pool():
    _HIST.clear()           # the workers are forked from this process: each starts with an empty call history
    return multiprocessing.get_context("fork").Pool(NPROC)


def _run_jobs(pool, fn, jobs, chunksize, max_fail=40, probe=192):
    """ordered results of fn over jobs.  A probe prefix runs one job per task; if it already shows systematic
    failure (>= 8 oracle failures), or once max_fail failures were seen, the rest is dropped — a change that makes
    most runs hang (each hang costs the CPU-time limit) is then reported in about a minute instead of hours."""
    out, nfail = [], 0
    for part, cs, stop_after in ((jobs[:probe], 1, 8), (jobs[probe:], chunksize, None)):
        for r in pool.imap(fn, part, chunksize=cs):
            out.append(r)
            if r[1]:
                nfail += 1
                if nfail >= max_fail:
                    pool.terminate()
                    return out
        if stop_after is not None and nfail >= stop_after:
            pool.terminate()
            return out
    return out


def _case(matrix, kind, slog):
    return {"kind": kind, "matrix": matrix, "scale_log2": slog}


def correspond(ctx):
    corr = Corr()
    corr.rule = ("enumerated: every n x m matrix (1<=n,m<=3) over {0,1,2} and 4x4 0/1 matrices (all in the thorough tier, a fixed "
                 "half in the quick tier); sampled: integer/negative/duplicate-row/-column/constant/structured rectangular "
                 "matrices up to 8x8 (brute force) and up to 40x40 (certificate), bool matrices, binary64 matrices with dyadic "
                 "entries (model run on the scaled integers), every integer / unsigned / boolean / floating-point element type "
                 "(int8..uint64, float16/32/64, longdouble, both byte orders) in eight memory layouts, near and far from the "
                 "origin, tiny and huge binary scales; a case is non-trivial if the driver ran at least one augmenting "
                 "step (_step5) or one reduction step (_step6), i.e. took more than 2 steps; distinct = distinct inputs")
    jobs = gen_jobs(ctx)
    enum = gen_enum(ctx)
    with _pool() as pool:
        res = _run_jobs(pool, _work, [(i, M, kind, slog) for i, (_s, M, kind, slog) in enumerate(jobs)], 16)
    with _pool() as pool:
        eres = _run_jobs(pool, _work_enum, [(i,) + e for i, e in enumerate(enum)], 256)
    if len(res) < len(jobs) or len(eres) < len(enum):
        ctx.log(f"stopped early after many oracle failures: {len(res)}/{len(jobs)} sampled, {len(eres)}/{len(enum)} enumerated")
        jobs, enum = jobs[:len(res)], enum[:len(eres)]
    ctx.log(f"{len(jobs)} sampled + {len(enum)} enumerated matrices through the instrumented implementation")

    full_terms, full_meta = [], []
    for (stream, M, kind, slog), (out, bad, hist) in zip(jobs, res):
        corr.count(stream)
        corr.hit("impl_" + (out[0] if out[0] == "Ok" else "Err_" + out[1]))
        if out[0] == "Ok":
            corr.hit("steps_%s" % ("le2" if out[4] <= 2 else "3-10" if out[4] <= 10 else "11-100" if out[4] <= 100 else "gt100"))
            if out[4] > 2:
                corr.nontriv([M, kind, slog])
        if bad:
            corr.failures.append({"stream": "oracle", "from": stream, "case": _case(M, kind, slog), "what": bad,
                                  "observed": list(out[:6]), "_hist": ("jobs", hist)})
        full_terms.append(full_term(M, out))
        full_meta.append((stream, M, kind, slog, out))
    for k in (0, 2, len(CORPUS) + 6):
        if k >= len(full_meta):
            continue
        s, M, kind, slog, out = full_meta[k]
        corr.sample({"input": _case(M, kind, slog), "output": list(out[:6])})

    enum_terms = []
    for (stream, n, m, b, k), (out, bad, hist) in zip(enum, eres):
        corr.count(stream)
        M = None
        if out[0] == "Ok" and out[4] > 2:
            corr.nontriv([n, m, b, k])
        if bad:
            M = enum_matrix(n, m, b, k)
            corr.failures.append({"stream": "oracle", "from": stream, "case": _case(M, "int", 0), "what": bad,
                                  "observed": list(out[:6]), "_hist": ("enum", hist)})
        cnt, dg = (out[4], out[5]) if out[0] == "Ok" else (-1, -1)
        enum_terms.append("(%s, %s, %s, %s, %s, %s)" % (cnat(n), cnat(m), cz(b), cz(k), cz(cnt), cz(dg)))

    # exact state traces on a sample (guards the digest machinery; every field compared in Coq)
    trace_terms, trace_meta = [], []
    tr_src = [j for j, (o, _b, _h) in zip(jobs, res)
              if j[0] in ("corpus", "rand8") and j[2] == "int" and len(j[1]) and len(j[1][0]) and o[0] == "Ok"]
    for stream, M, kind, slog in tr_src[: (600 if ctx.thorough else 150)]:
        out = impl_run(M, kind, slog, want_trace=True)
        if out[0] != "Ok":
            continue
        corr.count("exact-trace")
        n, m = len(M), len(M[0])
        W = M if n <= m else [[M[i][j] for i in range(n)] for j in range(m)]
        sts = []
        for code, zr, zc, C, ru, cu, mk in out[6]:
            sts.append("(%s, {| hC := %s; rowunc := %s; colunc := %s; marked := %s; z0r := %s; z0c := %s |})" % (
                cz(code), cmat(C), clist(ru, cbool), clist(cu, cbool), cmat(mk), cnat(zr), cnat(zc)))
        trace_terms.append("(%s, %s)" % (cmat(W), clist(sts)))
        trace_meta.append((stream, M))

    # refusals
    ref_terms, ref_meta = [], []
    for lab, obj, cells, *dl in refusal_cases(ctx):
        out = impl_refuse(mk_refuse(obj, *dl))
        corr.count("refusal")
        corr.hit("refusal_" + lab)
        if not _refusal_ok(lab, out):
            corr.failures.append({"stream": "oracle-refusal", "case": _rcase(lab, obj, *dl),
                                  "what": "non-finite / non-numeric / non-matrix input was not refused with ValueError",
                                  "observed": list(out)})
        if cells is not None:
            ref_terms.append("(%s, %s)" % (clist(cells, lambda r: clist(r, ccell)), cresult(out if out[0] == "Err" else ("Err", "none"))))
            ref_meta.append((lab, obj, out, dl))

    # wrap-around of signed integer element types (known finding): oracle only
    for M, kind in wrap_cases(ctx):
        out = impl_run(M, kind, 0)
        corr.count("wrap")
        bad = oracle(M, out)
        corr.hit("wrap_" + ("violates" if bad else "passes"))
        if bad:
            corr.failures.append({"stream": "oracle-wrap", "case": _case(M, kind, 0), "what": bad, "observed": list(out[:6])})

    # smallest failing matrix first (it is the one written to the replay file)
    def _size(f):
        M = f["case"].get("matrix")
        return (len(M) * (len(M[0]) if M else 0), sum(abs(x) for r in M for x in r)) if isinstance(M, list) else (0, 0)
    mats = [f for f in corr.failures if f["stream"] == "oracle"]
    mats.sort(key=_size)
    # a failure may depend on the calls the worker process made before it: record the shortest history that reproduces it in
    # a fresh interpreter (so that the replay file is self-contained) and put reproducing failures first
    def steps_of(f):
        src, hist = f.get("_hist") or (None, None)
        if not hist:
            return None
        hist = hist[-2048:]          # the part of the worker's call history that is searched
        if src == "jobs":
            return [_case(jobs[i][1], jobs[i][2], jobs[i][3]) for i in hist]
        return [_case(enum_matrix(*enum[i][1:]), "int", 0) for i in hist]
    mats = histshrink.order_and_attach("c14", mats, steps_of, log=ctx.log)
    for f in mats:
        f.pop("_hist", None)
    corr.failures = mats + [f for f in corr.failures if f["stream"] != "oracle"]
    ctx.log(f"evaluating the model: {len(full_terms)} full, {len(enum_terms)} enumerated, {len(trace_terms)} exact-trace, {len(ref_terms)} refusal cases")
    # large matrices are expensive in vm_compute: shard by estimated size
    small = [i for i, mt in enumerate(full_meta) if max(len(mt[1]), len(mt[1][0]) if mt[1] else 0) <= 8]
    large = [i for i in range(len(full_meta)) if i not in set(small)]
    for idxs, shard, tag in ((small, 250, "C14full"), (large, 1, "C14big")):
        if not idxs:
            continue
        bad, errors = coqrun.eval_bad_indices(tag, REQ, "", "check_full", [full_terms[i] for i in idxs], shard=shard,
                                              ty="mat * outcome result * Z * Z", timeout=1500)
        corr.errors.extend(f"{tag} shard {k}: {e}" for k, e in errors)
        for b in bad[:6]:
            stream, M, kind, slog, out = full_meta[idxs[b]]
            corr.disagreements.append({"stream": stream, "case": _case(M, kind, slog), "impl": list(out[:6]),
                                       "model": model_eval(M)})
    bad, errors = coqrun.eval_bad_indices("C14enum", REQ, "", "check_enum", enum_terms, shard=1500,
                                          ty="nat * nat * Z * Z * Z * Z", timeout=1500)
    corr.errors.extend(f"enum shard {k}: {e}" for k, e in errors)
    for b in bad[:6]:
        stream, n, m, bb, k = enum[b]
        M = enum_matrix(n, m, bb, k)
        corr.disagreements.append({"stream": stream, "case": _case(M, "int", 0), "impl": list(eres[b][0][:6]),
                                   "model": model_eval(M)})
    if trace_terms:
        bad, errors = coqrun.eval_bad_indices("C14trace", REQ, "", "check_trace", trace_terms, shard=15,
                                              ty="mat * list (Z * hstate)", timeout=1500)
        corr.errors.extend(f"trace shard {k}: {e}" for k, e in errors)
        for b in bad[:4]:
            stream, M = trace_meta[b]
            corr.disagreements.append({"stream": "exact-trace", "case": _case(M, "int", 0),
                                       "impl": "state trace differs from the model's", "model": model_eval(M)})
    if ref_terms:
        bad, errors = coqrun.eval_bad_indices("C14ref", REQ, "", "check_refuse", ref_terms, shard=200,
                                              ty="list (list cell) * outcome result", timeout=600)
        corr.errors.extend(f"refusal shard {k}: {e}" for k, e in errors)
        for b in bad[:4]:
            lab, obj, out, dl = ref_meta[b]
            corr.disagreements.append({"stream": "refusal", "case": _rcase(lab, obj, *dl),
                                       "impl": list(out), "model": "Err PyValueError"})
    corr.exhaustive = bool(ctx.thorough)
    corr.notes.append("enum3 is exhaustive in both tiers; bin4 is exhaustive in the thorough tier (65,536) and a fixed half in the quick tier")
    return corr


def model_eval(M):
    got, raw = coqrun.eval_terms("C14", REQ, "", [f"lsa_tr {cmat(M)}"])
    return got[0] if got else raw[-500:]


def search(ctx, corr, reasons):
    """every case was already judged by the oracle inside correspond; here: the disagreeing cases again plus a fresh
    targeted sample (tie-heavy rectangular matrices) through the oracle only."""
    found = []
    if corr.failures:        # the oracle inside correspond already produced concrete failing inputs
        return found
    for d in corr.disagreements:
        c = d["case"]
        if c.get("kind") == "refuse":
            continue
        out = impl_run(c["matrix"], c["kind"], c["scale_log2"])
        bad = oracle(c["matrix"], out) or impl_variants(c["matrix"], c["kind"], c["scale_log2"], out)
        if bad:
            found.append({"stream": "search", "case": c, "what": bad, "observed": list(out[:6])})
    if not found:
        jobs = [(rand_matrix(ctx.rng, 1, 7), "int", 0) for _ in range(4000)] + [j[1:] for j in dtype_jobs(ctx)]
        with _pool() as pool:
            res = _run_jobs(pool, _work, [(i,) + j for i, j in enumerate(jobs)], 32, max_fail=10)
        jobs = jobs[:len(res)]
        for (M, kind, slog), (out, bad, hist) in zip(jobs, res):
            if bad:
                found.append({"stream": "search", "case": _case(M, kind, slog), "what": bad, "observed": list(out[:6]), "_hist": hist})
        found.sort(key=lambda f: (len(f["case"]["matrix"]) * len(f["case"]["matrix"][0]) if f["case"]["matrix"] else 0))
        found = histshrink.order_and_attach("c14", found, lambda f: [_case(*jobs[i]) for i in f["_hist"][-2048:]] if f.get("_hist") else None,
                                            log=ctx.log)
        for f in found:
            f.pop("_hist", None)
    return found[:5]


def replay(ctx, rp):
    c = rp["case"]
    if c.get("kind") == "refuse":
        from decimal import Decimal
        obj = eval(c["matrix"], {"inf": float("inf"), "nan": float("nan"), "Fraction": Fraction, "Decimal": Decimal})
        out = impl_refuse(mk_refuse(obj, c.get("dtype"), c.get("layout")))
        return {"input": c, "implementation": list(out), "fails": not _refusal_ok(c.get("label"), out)}
    if c.get("history"):
        # the failure needs the earlier calls: all of them, then the case, in one fresh interpreter
        last = {k: v for k, v in c.items() if k != "history"}
        got = histseq.fresh_run("c14", list(c["history"]) + [last])
        return {"input": c, "oracle": got, "fails": bool(got),
                "note": "history replay: earlier calls re-run in a fresh interpreter before the case"}
    out = impl_run(c["matrix"], c["kind"], c["scale_log2"])
    bad = oracle(c["matrix"], out) or impl_variants(c["matrix"], c["kind"], c["scale_log2"], out)
    return {"input": c, "implementation": list(out[:6]), "oracle": bad, "fails": bool(bad)}


KNOWN = {"C14-narrow-int-wraparound": _known_wrap}

TRUSTED = [
    "hand-written model coq/Model/Hungarian.v of scipy_hungarian.py (_Hungary, _step1.._step6, the driver loop), tied by "
    "differential execution of full state traces (this file); the rest of the driver (refusal test, orientation, early exit, "
    "first step, result views, star code) is translated by harness/translate/hungglue.py (fail-closed) and proved equal to the model",
    "numpy semantics used by the code (nonzero row-major, argmax = first maximum, negative index -1 = last column, broadcasting) "
    "are modelled, not verified; machine integers/binary64 are modelled by Z (inputs in the correspondence are small integers or "
    "dyadic binary64 values whose intermediate results are exact)",
    "state traces of the enumerated and sampled streams are compared through a 64-bit rolling polynomial digest (mod 2^64, base 2^20+7) of every "
    "field of every state plus the exact result; an exact field-by-field trace stream guards the digest",
]
ASSUMPTIONS = [
    "entries are finite numbers whose sums/differences are exact in the array dtype (no integer wrap-around, no floating-point "
    "rounding): the generators keep (k+2) * (max - min) within the element type, which bounds every intermediate value of the "
    "solver (measured maximum: 0.4 of that bound)",
]
TECHNIQUE = ("Coq proofs over a hand-written Gallina model of the Munkres state machine (LP-duality certificate soundness for all "
             "sizes; invariant-based partial correctness of the whole algorithm) + differential correspondence on full state traces")
DESIGN_REF = "DESIGN.md §6 C14"
LEVEL_TEXT = (
    "Machine-checked (Coq 8.16.1, closed under the global context) TOTAL CORRECTNESS of Model/Hungarian.v, for integer matrices "
    "of EVERY shape (square, wide, tall, zero-dimensional), with ties and negative entries: C14_total_correct (for every "
    "rectangular C the model of linear_sum_assignment(C, return_cost=True) returns a result, and it has min(n,m) pairs, no repeated "
    "row/column, strictly increasing rows, a non-negative reduced matrix that is zero on the pairs and equals the input minus row "
    "and column constants, total cost <= every complete assignment, and every optimal assignment lies on its zeros). Built from: "
    "C14_cert_sound (soundness of the boolean dual-certificate checker; LP duality by sums over lists incl. the rectangular case "
    "where unmatched lines carry the maximal potential), C14_certificate_optimal, C14_step_preserves_invariant (the Munkres "
    "invariant is preserved by _step1, _step3, _step4 incl. its incremental covered_C bookkeeping, _step5 incl. the "
    "simple-augmenting-path argument, _step6), C14_partial_correct / C14_correct (any fuel), C14_steps_never_fail (the loop of "
    "_step4 ends within n+1 iterations; the path of _step5 fits state.path: no IndexError), C14_terminates (a strictly "
    "decreasing measure: stars, uncovered rows, existence of an uncovered zero), C14_refuses_nonfinite / "
    "C14_finite_reaches_solver / C14_validated_entry_correct (input validation). The model is tied to scipy_hungarian.py on every run "
    "by executing the real driver with every _stepN instrumented and comparing C, covers, marks, Z0 and the next step after EVERY "
    "step with the model (exact integers; digest streams + exact field-by-field stream), plus the exact final results: all n x m "
    "matrices (n,m<=3) over {0,1,2}, 4x4 0/1 matrices (all 65,536 in the thorough tier, a fixed half in the quick tier), random "
    "integer / negative / duplicate-row / rectangular / bool / dyadic binary64 matrices up to 8x8 against brute force and up to "
    "40x40 against the certificate checker (Coq and Python mirror), matrices of every integer / unsigned / boolean / floating-point "
    "element type (int8..uint64, float16/32/64, longdouble, big- and little-endian) in eight memory layouts (C, Fortran, transposed, "
    "strided, negative strides, offset window, read-only) incl. values at the ends of the type's range and scales 2^-1074..2^960, "
    "all with return_cost=True and every clause checked on the returned reduced matrix, refusal of inf/-inf/nan in every "
    "floating-point type and layout, of ragged/non-numeric/non-2-d input. Every "
    "matrix is solved through the public name qcelemental.util.linear_sum_assignment and then again with return_cost omitted, "
    "return_cost=False, as a nested list, a second time, and once more after the arrays returned earlier were modified in place (same pairs / "
    "same reduced matrix required; the caller's array must be left unchanged). A call that does not return is bounded by a "
    "step counter on the state machine and a CPU-time alarm and reported as a failing input.")
LEVEL_NOTE = (
    "Clause map: existence of an answer for every finite matrix of every shape = C14_terminates + C14_steps_never_fail; "
    "min(n,m) pairs / no repeats / increasing rows / minimum total cost / reduced matrix non-negative, zero on the pairs, "
    "input minus row and column constants / optimal assignments on its zeros = C14_cert_sound + C14_certificate_optimal via "
    "C14_total_correct; refusal of inf/nan/ragged = C14_refuses_nonfinite (+ C14_finite_reaches_solver, "
    "C14_validated_entry_correct), about the code's current driver through C14_generated_driver_is_the_model; refusal of "
    "non-numeric / non-2-d input, bool->int cast, narrow / unsigned / floating-point element types and memory layouts, "
    "return_cost omitted/False, nested-list input, the public name qcelemental.util.linear_sum_assignment, repeated calls, "
    "modified returned arrays and "
    "'the caller's matrix is not modified' = only correspondence/oracle (variant calls on every matrix of every stream). "
    "Everything planned in DESIGN.md §6 C14 is proved, incl. the extension munkres_terminates (fuel bound (k+2)(2k+8), k=min(n,m), "
    "instead of the design's (n+1)^2(m+1)). Trusted: Coq kernel + vm_compute; the hand-written model (integer matrices; "
    "machine-integer overflow and binary64 rounding are outside the model, the float stream uses dyadic values whose arithmetic "
    "is exact); numpy semantics (nonzero/argmax order, negative index, broadcasting) are modelled, not verified; the 64-bit "
    "digest used to compare state traces in the volume streams (guarded by an exact trace stream); the correspondence harness "
    "harness/props/c14.py. The theorems are about the model: that the implementation follows it (incl. termination) is "
    "established per run by the state-trace correspondence, not by proof. Known finding C14-narrow-int-wraparound: for a signed "
    "integer matrix one of whose rows spans more than its element type holds, _step1's in-place subtraction wraps around and the "
    "returned reduced matrix has negative entries (int8 [[127,-128],[-128,127]]); exercised by the oracle-only `wrap` stream, "
    "outside the model's 'no wrap-around' assumption. No axioms.")
