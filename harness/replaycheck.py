"""Lead's tool: every replay file kept next to a seeded change must fail on the changed tree and pass on /repo.
usage: python3 harness/replaycheck.py [Cxx-k ...]     (default: all seeded dirs that hold a failing-input replay)
Writes build/replaycheck.json and prints one line per seed."""
import glob
import json
import os
import subprocess
import sys

VERIF = os.path.dirname(os.path.dirname(os.path.abspath(__file__)))


def sh(cmd, env=None, timeout=1200):
    try:
        p = subprocess.run(cmd, shell=True, stdout=subprocess.PIPE, stderr=subprocess.STDOUT, text=True, env=env, timeout=timeout)
        return p.returncode, p.stdout
    except subprocess.TimeoutExpired:
        return 124, "timeout"


def main():
    names = sys.argv[1:] or sorted(os.path.basename(d) for d in glob.glob(os.path.join(VERIF, "seeded", "C*-*")))
    res = {}
    for name in names:
        d = os.path.join(VERIF, "seeded", name)
        pid = name.split("-")[0]
        reps = []
        for f in sorted(glob.glob(os.path.join(d, "replay-*.json"))):
            try:
                with open(f) as fh:
                    r = json.load(fh)
            except Exception:
                continue
            if r.get("kind") == "failing-input" and "case" in r:
                reps.append(f)
        if not reps:
            print(name, "no failing-input replay kept")
            continue
        f = reps[-1]
        rc_clean, out_clean = sh(f"cd {VERIF} && ./check {pid} --replay {f}")
        wt = f"/tmp/wt-rpl-{name}"
        sh(f"git -C /repo worktree remove --force {wt}")
        rc, out = sh(f"git -C /repo worktree add -q --detach {wt} HEAD && git -C {wt} apply {os.path.join(d, 'patch.diff')}")
        if rc != 0:
            print(name, "patch does not apply:", out[-200:])
            sh(f"git -C /repo worktree remove --force {wt}")
            continue
        env = dict(os.environ, VERIF_REPO=wt)
        rc_pat, out_pat = sh(f"cd {VERIF} && ./check {pid} --replay {f}", env=env)
        sh(f"git -C /repo worktree remove --force {wt}")
        import hashlib
        import shutil
        shutil.rmtree(os.path.join(VERIF, "build", "alt-" + hashlib.sha1(os.path.realpath(wt).encode()).hexdigest()[:10]), ignore_errors=True)
        ok = (rc_clean == 0 and rc_pat == 1)
        res[name] = {"replay": os.path.basename(f), "rc_clean": rc_clean, "rc_patched": rc_pat, "ok": ok,
                     "clean_tail": out_clean[-400:] if rc_clean != 0 else "", "patched_tail": out_pat[-400:] if rc_pat != 1 else ""}
        print(name, "OK" if ok else f"BAD clean={rc_clean} patched={rc_pat}", flush=True)
    os.makedirs(os.path.join(VERIF, "build"), exist_ok=True)
    with open(os.path.join(VERIF, "build", "replaycheck.json"), "w") as fh:
        json.dump(res, fh, indent=1)


if __name__ == "__main__":
    main()
