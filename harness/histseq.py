"""History (sequence) streams: cases run one after the other in ONE interpreter, so that state left behind by an earlier call
(a cache or memo keyed too coarsely, a mutated module-level table, an aliased array) shows up as a wrong answer to a later call.

A property module that uses this provides

    run_history(steps) -> list[str]      # run the JSON-able steps in order, return the oracle's complaints about the LAST step

The failing case that is recorded is a *history*: the shortest suffix of the executed steps that, run in a FRESH interpreter,
still makes the last step fail (so that the replay reproduces it). If the last step alone fails, the history has length 1 and the
finding does not depend on state at all.
"""
import json
import os
import subprocess
import sys

VERIF = os.path.dirname(os.path.dirname(os.path.abspath(__file__)))


def fresh_run(module, steps, timeout=300):
    """run `module.run_history(steps)` in a fresh interpreter (same PYTHONPATH, hence the same implementation tree)"""
    code = ("import json, sys, warnings\nwarnings.filterwarnings('ignore')\n"
            f"from harness.props import {module} as m\n"
            "print('@@' + json.dumps(m.run_history(json.load(sys.stdin))))\n")
    try:
        p = subprocess.run([sys.executable, "-c", code], input=json.dumps(steps), capture_output=True, text=True, cwd=VERIF,
                           timeout=timeout, env=dict(os.environ))
    except subprocess.TimeoutExpired:
        return None
    for line in p.stdout.splitlines():
        if line.startswith("@@"):
            return json.loads(line[2:])
    return None


def minimal_history(module, steps):
    """shortest suffix (lengths 1, 2, 3, 5, 9, 17, ... , all) whose last step still fails in a fresh interpreter; `steps` if none does
    (returns (history, complaints, reproduced))"""
    n = len(steps)
    lengths, k = [1, 2, 3], 5
    while k < n:
        lengths.append(k)
        k = 2 * k - 1
    lengths.append(n)
    for ln in lengths:
        if ln > n:
            continue
        got = fresh_run(module, steps[n - ln:])
        if got:
            return steps[n - ln:], got, True
    return steps, [], False
