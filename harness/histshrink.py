"""Self-contained replays for failures that depend on earlier calls (uses harness/histseq.py).

A property module provides `run_history(steps) -> list[str]` (run the JSON-able steps in order in this interpreter, return the
oracle's complaints about the LAST step).  `shrink` turns "the last step failed after all these earlier steps" into the shortest
history found that still fails when run in a FRESH interpreter: first the shortest failing suffix (histseq.minimal_history), then
a bounded greedy removal of chunks of the remaining earlier steps (halving chunk sizes; at most `budget` fresh runs)."""
from . import histseq


def _suffix(module, steps):
    """shortest of the suffixes of length 1, 2, 4, 16, 128, all whose last step fails in a fresh interpreter"""
    n = len(steps)
    for ln in sorted({min(k, n) for k in (1, 2, 4, 16, 128, n)}):
        got = histseq.fresh_run(module, steps[n - ln:])
        if got:
            return steps[n - ln:], got, True
    return steps, [], False


def shrink(module, steps, budget=24):
    """-> (history, complaints, reproduced); history ends with the failing step; (steps, [], False) if no suffix reproduces"""
    hist, got, ok = _suffix(module, steps)
    if not ok or len(hist) <= 2:
        return hist, got, ok
    prefix, last = hist[:-1], hist[-1]
    chunk = max(1, len(prefix) // 2)
    while budget > 0 and len(prefix) > 1:
        i = 0
        while i < len(prefix) and budget > 0 and len(prefix) > 1:
            cand = prefix[:i] + prefix[i + chunk:]
            budget -= 1
            g = histseq.fresh_run(module, cand + [last])
            if g:
                prefix, got = cand, g
            else:
                i += chunk
        if chunk == 1:
            break
        chunk = max(1, chunk // 2)
    return prefix + [last], got, True


def order_and_attach(module, failures, steps_of, limit=2, log=None, time_budget=90.0):
    """For the first `limit` failures (in the given order) of every stream, within `time_budget` seconds in total: find the
    shortest reproducing history.  A failure whose last step alone reproduces stays as it is; one that needs earlier steps gets
    case["history"] = those steps; one that does not reproduce in a fresh interpreter is only an echo of state that the run
    itself carried (for instance a comparison with an answer memoised earlier in the run): it is dropped when some other
    failure reproduces, and kept (behind the others) when none does, so that the run still alarms.  `steps_of(f)` returns the
    full list of steps (ending with the failing one) or None when no history was recorded.  Returns the new list."""
    import time
    t0 = time.time()
    # order of examination: the first failure of every stream, then the second of every stream, ...
    rank, nth = [], {}
    for i, f in enumerate(failures):
        s = f.get("stream", "")
        nth[s] = nth.get(s, 0) + 1
        rank.append((nth[s], i))
    verdict = {}
    for k, i in sorted(rank):
        f = failures[i]
        if k > limit or time.time() - t0 >= time_budget:
            continue
        steps = steps_of(f)
        if steps is None:
            continue
        hist, got, ok = shrink(module, steps)
        if log:
            log(f"history of a failing case ({f.get('stream', '')}): {len(steps)} recorded step(s) -> {len(hist) if ok else 'not reproduced'}")
        verdict[i] = ok
        if not ok:
            f["what"] = str(f.get("what")) + "  [seen in this run; not reproduced by re-running the recorded calls in a fresh interpreter]"
        elif len(hist) > 1:
            f["case"] = dict(f["case"], history=hist[:-1])
            f["what"] = str(f.get("what")) + f"  [after {len(hist) - 1} earlier call(s), recorded in case.history]"
    good = [failures[i] for i in range(len(failures)) if verdict.get(i) is True]
    bad = [failures[i] for i in range(len(failures)) if verdict.get(i) is False]
    rest = [failures[i] for i in range(len(failures)) if i not in verdict]
    if good:
        good_streams = {g.get("stream", "") for g in good}
        kept = [f for f in rest if f.get("stream", "") in good_streams]
        if log and len(kept) < len(rest) + len(bad):
            log(f"{len(rest) - len(kept) + len(bad)} failure(s) of this run that are not shown to reproduce from their recorded calls are "
                f"left out (a reproducing one is reported)")
        return good + kept
    return rest + bad
