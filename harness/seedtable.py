"""Regenerate the table of seeded changes in DESIGN.md (section 9.5) from /verif/seeded/*/meta.json.
usage: python3 harness/seedtable.py            (rewrites the block between the two markers in DESIGN.md)"""
import json
import os
import re

VERIF = os.path.dirname(os.path.dirname(os.path.abspath(__file__)))
BEGIN = "<!-- seedtable:begin -->"
END = "<!-- seedtable:end -->"


def one_line(s, n):
    s = re.sub(r"\s+", " ", str(s or "")).strip().replace("|", "/")
    return s if len(s) <= n else s[: n - 1].rstrip() + "…"


def main():
    rows = []
    d = os.path.join(VERIF, "seeded")
    for name in sorted(os.listdir(d)):
        mp = os.path.join(d, name, "meta.json")
        if not os.path.exists(mp):
            continue
        with open(mp) as fh:
            m = json.load(fh)
        lv = m.get("lead_verification", {})
        streams = []
        for fn in sorted(os.listdir(os.path.join(d, name))):
            if fn.startswith("replay-"):
                try:
                    with open(os.path.join(d, name, fn)) as fh:
                        r = json.load(fh)
                    streams.append(str(r.get("stream") or r.get("theorem_or_stream") or r.get("kind")))
                except Exception:
                    pass
        if lv.get("caught_with_failing_input"):
            verdict = "caught, failing input replayed"
        elif lv.get("caught"):
            verdict = "caught (no-failing-input-found)"
        else:
            verdict = "MISSED"
        if streams:
            verdict += " — stream `" + one_line(streams[0], 40) + "`"
        rows.append(f"| {name} | {one_line(m.get('summary'), 230)} | {one_line(m.get('needs_to_manifest'), 170)} | "
                    f"{lv.get('tier', 'quick')} | {verdict} |")
    table = ["| seed | change (file/function, mechanism) | needs, to manifest | tier run | `./check` verdict |",
             "|---|---|---|---|---|"] + rows
    n_caught = sum("caught" in r.split("|")[-2] and "MISSED" not in r for r in rows)
    block = (BEGIN + "\n" + f"{len(rows)} seeded changes kept; {n_caught} caught.\n\n" + "\n".join(table) + "\n" + END)
    path = os.path.join(VERIF, "DESIGN.md")
    with open(path) as fh:
        txt = fh.read()
    if BEGIN in txt:
        txt = re.sub(re.escape(BEGIN) + r".*?" + re.escape(END), lambda _m: block, txt, flags=re.S)
    else:
        txt += "\n" + block + "\n"
    with open(path, "w") as fh:
        fh.write(txt)
    print(f"{len(rows)} rows, {n_caught} caught")


if __name__ == "__main__":
    main()
