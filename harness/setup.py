"""setup_cmd: regenerate every Gen file, build everything, run the forbidden-token gate."""
import importlib
import os
import sys

from . import coqrun
from .core import Ctx, TranslateError

ALL = [f"C{n:02d}" for n in range(1, 21)]


def main():
    sys.path.insert(0, "/repo")
    for pid in ALL:
        if not os.path.exists(os.path.join(coqrun.VERIF, "harness", "props", pid.lower() + ".py")):
            continue
        mod = importlib.import_module(f"harness.props.{pid.lower()}")
        try:
            mod.translate(Ctx(pid, "quick", 0))
        except TranslateError as e:
            print("translator refused for", pid, ":", e)
    hits = coqrun.forbidden_scan()
    if hits:
        print("forbidden tokens:", hits)
        return 1
    targets = [f.replace(".v", ".vo") for f in coqrun.all_v_files()]
    ok, out, dt = coqrun.make(targets, timeout=7000)
    print(out[-4000:])
    print(f"build {'ok' if ok else 'FAILED'} in {dt:.0f}s")
    return 0 if ok else 1


if __name__ == "__main__":
    sys.exit(main())
