"""setup_cmd: regenerate every Gen file, build everything, run the forbidden-token gate."""
import importlib
import os
import sys

from . import coqrun
from .core import Ctx, TranslateError

ALL = [f"C{n:02d}" for n in range(1, 21)]


def main():
    sys.path.insert(0, "/repo")
    ready = []
    import json
    with open(os.path.join(coqrun.VERIF, "MANIFEST.json")) as fh:
        claimed = [c["property_id"] for c in json.load(fh)["checks"]]
    for pid in claimed:
        if not os.path.exists(os.path.join(coqrun.VERIF, "harness", "props", pid.lower() + ".py")):
            continue
        if not os.path.exists(os.path.join(coqrun.COQ, "Props", pid + ".v")):
            continue
        try:
            mod = importlib.import_module(f"harness.props.{pid.lower()}")
        except Exception as e:
            print("cannot import property module", pid, repr(e))
            continue
        if not hasattr(mod, "LEVEL_TEXT") or not getattr(mod, "READY", True):
            continue
        try:
            mod.translate(Ctx(pid, "quick", 0))
        except TranslateError as e:
            print("translator refused for", pid, ":", e)
        ready.append((pid, mod))
    hits = coqrun.forbidden_scan()
    if hits:
        print("forbidden tokens:", hits)
    targets = ["Common/Corr.vo"]
    for pid, mod in ready:
        targets.append(f"Props/{pid}.vo")
        targets.extend(getattr(mod, "EXTRA_TARGETS", []))
    ok, out, dt = coqrun.make(["-k"] + targets, timeout=7000)
    print(out[-4000:])
    missing = [t for t in targets if not os.path.exists(os.path.join(coqrun.COQ, t))]
    good = ok and not missing
    print(f"build of {len(targets)} targets {'ok' if good else 'FAILED: make rc!=0, missing=' + str(missing)} in {dt:.0f}s")
    return 0 if good and not hits else 1


if __name__ == "__main__":
    sys.exit(main())
