"""The check runner shared by all properties.

A property module (harness/props/cXX.py) exposes

    PID            "C05"
    ALLOWED_AXIOMS set of axiom names that may appear under its theorems (library axioms only)
    TRUSTED        list of strings (trusted base of this property)
    def translate(ctx) -> None              # (re)generate coq/Gen/*.v from /repo; raise TranslateError
    def correspond(ctx) -> Corr             # differential run model vs implementation + oracle on impl
    def search(ctx, corr, reasons) -> list  # look for a concrete failing input on the implementation
    def replay(ctx, case) -> dict           # re-run one recorded case
    KNOWN = {finding_id: predicate(case_dict) -> bool}

and this module does the rest: build, Print Assumptions accounting, deciding, known findings,
replay files, evidence.
"""
import argparse
import hashlib
import importlib
import json
import os
import random
import sys
import time
import traceback

from . import coqrun

VERIF = coqrun.VERIF
REPO = os.environ.get("VERIF_REPO", "/repo")


class TranslateError(Exception):
    pass


class Corr:
    """Result of a correspondence + oracle run."""

    def __init__(self):
        self.evaluations = 0
        self.nontrivial = set()       # hashes of distinct non-trivial cases
        self.rule = ""
        self.samples = []
        self.disagreements = []       # model vs implementation: list of dict(case=..., impl=..., model=..., stream=...)
        self.failures = []            # property oracle fails on the implementation: list of dict(case, what, stream)
        self.errors = []              # machinery errors (a shard did not compile etc.): strings
        self.streams = {}             # stream -> count
        self.branches = {}            # coverage counters
        self.exhaustive = False
        self.notes = []

    def count(self, stream, n=1):
        self.streams[stream] = self.streams.get(stream, 0) + n
        self.evaluations += n

    def hit(self, key, n=1):
        self.branches[key] = self.branches.get(key, 0) + n

    def nontriv(self, obj):
        self.nontrivial.add(hashlib.sha1(json.dumps(obj, sort_keys=True, default=str).encode()).hexdigest()[:16])

    def sample(self, obj, limit=6):
        if len(self.samples) < limit:
            self.samples.append(obj)


class Ctx:
    def __init__(self, pid, tier, seed):
        self.pid = pid
        self.tier = tier
        self.seed = seed
        self.rng = random.Random(seed * 1000003 + int(pid[1:]))
        self.repo = REPO
        self.thorough = tier == "thorough"
        self.t0 = time.time()

    def log(self, *a):
        print(f"[{self.pid} {time.time() - self.t0:6.1f}s]", *a, flush=True)


def load_known():
    path = os.path.join(VERIF, "known_findings.json")
    try:
        with open(path) as fh:
            return json.load(fh).get("findings", [])
    except FileNotFoundError:
        return []


def write_replay(pid, payload):
    d = os.path.join(VERIF, "replays")
    os.makedirs(d, exist_ok=True)
    blob = json.dumps(payload, sort_keys=True, default=str, indent=1)
    path = os.path.join(d, f"{pid}-{hashlib.sha1(blob.encode()).hexdigest()[:12]}.json")
    with open(path, "w") as fh:
        fh.write(blob)
    return path


def build_and_account(ctx, mod):
    """Translate, build Props/<pid>.vo, recompile it to capture Print Assumptions.
    Returns dict(obligations, discharged, names, assumptions, problems[])."""
    pid = ctx.pid
    problems = []
    try:
        mod.translate(ctx)
    except TranslateError as e:
        problems.append({"kind": "translator", "what": str(e)})
    except Exception as e:
        problems.append({"kind": "translator", "what": "translator crashed: " + "".join(traceback.format_exception_only(type(e), e)).strip()})
    hits = coqrun.forbidden_scan()
    if hits:
        problems.append({"kind": "gate", "what": "forbidden token(s) in development: " + "; ".join(hits[:10])})
    props_path = os.path.join(coqrun.COQ, "Props", f"{pid}.v")
    names = coqrun.theorems_in(props_path)
    res = {"obligations": len(names), "discharged": 0, "names": names, "assumptions": {}, "problems": problems,
           "build_s": 0.0}
    if any(p["kind"] == "translator" for p in problems):
        # The generated files may be stale or missing, so the theorems are NOT re-checked against what the
        # code says now (discharged stays 0).  Still build whatever builds from the previous Gen files, so
        # that the model remains executable for the correspondence / failing-input search.
        try:
            coqrun.make(["-k", f"Props/{pid}.vo", "Common/Corr.vo"] + list(getattr(mod, "EXTRA_TARGETS", [])),
                        timeout=int(os.environ.get("VERIF_MAKE_TIMEOUT", "3000")))
        except Exception:
            pass
        return res
    ok, out, dt = coqrun.make([f"Props/{pid}.vo", "Common/Corr.vo"] + list(getattr(mod, "EXTRA_TARGETS", [])), timeout=int(os.environ.get("VERIF_MAKE_TIMEOUT", "3000")))
    res["build_s"] = dt
    if not ok:
        tail = out[-3000:]
        # which theorem failed (if the failure is in the Props file itself)?
        failed = None
        import re
        m = re.search(r'File "\./Props/%s\.v", line (\d+)' % pid, out)
        if m:
            line = int(m.group(1))
            with open(props_path) as fh:
                src = fh.read().splitlines()
            seen = 0
            for i, ln in enumerate(src[:line], 1):
                mm = re.match(r"\s*(?:Theorem|Corollary)\s+([A-Za-z0-9_']+)", ln)
                if mm:
                    failed = mm.group(1)
                    seen += 1
            res["discharged"] = max(0, seen - 1)
        m2 = re.findall(r'File "\./([A-Za-z]+/[A-Za-z0-9_]+\.v)", line (\d+)', out)
        problems.append({"kind": "proof", "what": f"coq build failed (theorem {failed}; files {sorted(set(f for f, _ in m2))})",
                         "theorem": failed, "log_tail": tail})
        return res
    ok2, out2 = coqrun.compile_props(pid)
    if not ok2:
        problems.append({"kind": "proof", "what": "Props file failed on recompilation", "log_tail": out2[-3000:]})
        return res
    assum = coqrun.parse_assumptions(out2, coqrun.print_assumption_targets(props_path))
    if assum is None:
        problems.append({"kind": "proof", "what": "could not match Print Assumptions output to theorems", "log_tail": out2[-2000:]})
        return res
    res["assumptions"] = assum
    allowed = set(getattr(mod, "ALLOWED_AXIOMS", set()))
    discharged = 0
    for n in names:
        if n not in assum:
            problems.append({"kind": "proof", "what": f"no Print Assumptions captured for theorem {n}", "theorem": n})
            continue
        extra = [a for a in assum[n] if a not in allowed]
        if extra:
            problems.append({"kind": "proof", "what": f"theorem {n} depends on non-allow-listed axioms {extra}", "theorem": n})
            continue
        discharged += 1
    res["discharged"] = discharged
    if ctx.thorough and os.environ.get("VERIF_COQCHK", "1") != "0":
        # independent re-check of the compiled theorems (and everything they depend on) by coqchk, which also lists
        # the axioms of every loaded library file (a superset of what Print Assumptions reports per theorem)
        ck = coqrun.coqchk(pid, timeout=int(os.environ.get("VERIF_COQCHK_TIMEOUT", "3000")))
        res["coqchk"] = ck
        ctx.log(f"coqchk: {ck['status']} in {ck['seconds']:.0f}s, axioms in context: {ck['axioms']}")
        if ck["status"] == "failed":
            problems.append({"kind": "proof", "what": "coqchk rejected the compiled development", "log_tail": ck["tail"]})
            res["discharged"] = 0
    return res


def decide(ctx, mod, acc, corr):
    """Turn build problems / disagreements / oracle failures into VIOLATION or KNOWN-FINDING lines."""
    pid = ctx.pid
    known = [k for k in load_known() if k.get("property") == pid and k.get("status") == "known"]
    matchers = getattr(mod, "KNOWN", {})
    lines = []
    violations = 0
    known_hits = {}

    failures = list(corr.failures)
    reasons = list(acc["problems"])
    if corr.errors:
        reasons.append({"kind": "correspondence", "what": f"{len(corr.errors)} machinery error(s); first: " + str(corr.errors[0])[:1500]})
    if corr.disagreements:
        reasons.append({"kind": "correspondence",
                        "what": f"{len(corr.disagreements)} model/implementation disagreement(s)",
                        "first": corr.disagreements[:5]})
    if reasons:
        ctx.log("broken obligations:", [r["what"][:200] for r in reasons])
        try:
            extra = mod.search(ctx, corr, reasons) or []
        except Exception as e:
            extra = []
            ctx.log("search crashed:", repr(e))
        failures.extend(extra)

    unknown_failures = []
    for f in failures:
        matched = None
        for k in known:
            pred = matchers.get(k["id"])
            try:
                if pred is not None and pred(f):
                    matched = k
                    break
            except Exception:
                pass
        if matched:
            known_hits.setdefault(matched["id"], []).append(f)
        else:
            unknown_failures.append(f)

    for k in known:
        if k["id"] in known_hits:
            lines.append(f"KNOWN-FINDING: property={pid} {k['what']} [{k['id']}; {len(known_hits[k['id']])} hit(s) this run]")
        else:
            # still listed: print it (the finding is recorded), the run just did not touch it
            lines.append(f"KNOWN-FINDING: property={pid} {k['what']} [{k['id']}; not exercised this run]")

    if unknown_failures:
        # group: report the first (smallest) failing input per stream
        seen = set()
        for f in unknown_failures:
            key = f.get("stream", "")
            if key in seen:
                continue
            seen.add(key)
            path = write_replay(pid, {"property": pid, "kind": "failing-input", "stream": key, "case": f.get("case"),
                                      "what": f.get("what"), "observed": f.get("observed"), "expected": f.get("expected"),
                                      "how_to_replay": f"./check {pid} --replay <this file>",
                                      "broken_obligations": [r["what"] for r in reasons]})
            lines.append(f"VIOLATION property={pid} replay={path}")
            violations += 1
    elif reasons:
        # a disagreement that is entirely explained by known findings is not a new violation
        unexplained = []
        for r in reasons:
            if r["kind"] == "correspondence" and "first" in r:
                rest = []
                for d in corr.disagreements:
                    ok = False
                    for k in known:
                        pred = matchers.get(k["id"])
                        try:
                            if pred is not None and pred(d):
                                ok = True
                        except Exception:
                            pass
                    if not ok:
                        rest.append(d)
                if rest:
                    r = dict(r)
                    r["first"] = rest[:5]
                    unexplained.append(r)
            else:
                unexplained.append(r)
        if unexplained:
            path = write_replay(pid, {"property": pid, "kind": "unproved",
                                      "no_longer_checks": unexplained,
                                      "note": "no concrete failing input was found on the implementation; "
                                              "the property is no longer shown to hold"})
            lines.append(f"VIOLATION property={pid} replay={path} no-failing-input-found")
            violations += 1
    return lines, violations


def write_evidence(ctx, mod, acc, corr, violations, wall):
    cov = {
        "obligations": max(acc["obligations"], 0),
        "discharged": acc["discharged"],
        "checker_cmd": f"make -C /verif/coq Props/{ctx.pid}.vo  &&  coqc -Q /verif/coq QV /verif/coq/Props/{ctx.pid}.v   (Coq 8.16.1 kernel, vm_compute; no native_compute)",
        "trusted_base": list(getattr(mod, "TRUSTED", [])) + [
            "Coq 8.16.1 kernel and vm_compute",
            "axioms reported by Print Assumptions: " + json.dumps({k: v for k, v in acc["assumptions"].items()}, sort_keys=True),
        ],
        "theorems": acc["names"],
        "coqchk": acc.get("coqchk", {"status": "not run (quick tier)"}),
        "evaluations": corr.evaluations,
        "distinct_nontrivial": len(corr.nontrivial),
        "rule": corr.rule,
        "samples": corr.samples or [{"note": "no correspondence cases this run"}],
        "streams": corr.streams,
        "branch_hits": corr.branches,
        "disagreements_checked": len(corr.disagreements),
        "oracle_failures": len(corr.failures),
        "exhaustive": bool(corr.exhaustive),
        "build_s": round(acc.get("build_s", 0.0), 1),
        "notes": corr.notes,
        "problems": [p["what"][:300] for p in acc["problems"]],
    }
    ev = {
        "property_id": ctx.pid,
        "tier": ctx.tier,
        "seed": ctx.seed,
        "level": "proof",
        "coverage": cov,
        "assumptions": list(getattr(mod, "ASSUMPTIONS", [])),
        "wall_s": round(wall, 2),
        "violations": violations,
    }
    # evidence of runs against a scratch worktree (VERIF_REPO, mutation trials) must not overwrite the
    # evidence of the registered checks, which always run against /repo
    d = os.path.join(VERIF, "evidence") if os.path.realpath(REPO) == "/repo" else os.path.join(coqrun.BUILD, "evidence")
    os.makedirs(d, exist_ok=True)
    with open(os.path.join(d, f"{ctx.pid}.json"), "w") as fh:
        json.dump(ev, fh, indent=1, sort_keys=True, default=str)
        fh.write("\n")


def main(argv=None):
    ap = argparse.ArgumentParser()
    ap.add_argument("pid")
    ap.add_argument("--tier", default=os.environ.get("VERIF_TIER", "quick"), choices=["quick", "thorough"])
    ap.add_argument("--replay", default=None)
    ap.add_argument("--no-build", action="store_true", help="development only: skip the Coq build")
    args = ap.parse_args(argv)
    pid = args.pid.upper()
    seed = int(os.environ.get("VERIF_SEED", "0") or 0)
    # the implementation under test is /repo's working tree
    sys.path.insert(0, REPO)
    os.environ.setdefault("PYTHONHASHSEED", "0")
    mod = importlib.import_module(f"harness.props.{pid.lower()}")
    ctx = Ctx(pid, args.tier, seed)
    if args.replay:
        with open(args.replay) as fh:
            rp = json.load(fh)
        if rp.get("kind") == "unproved" or "case" not in rp:
            # a replay file that names a theorem / translator / correspondence stream that no longer checks carries no
            # concrete input: replaying it means re-running the check itself on the current tree
            print(json.dumps({"replay": "no concrete input recorded (kind 'unproved'): re-running the quick check",
                              "no_longer_checked": rp.get("no_longer_checks")}, indent=1, default=str)[:3000])
            args.replay = None
        else:
            out = mod.replay(ctx, rp)
            print(json.dumps(out, indent=1, default=str))
            if not out.get("fails"):
                return 0
            # a failure that is a listed known finding is reported as such, exactly as in a normal run
            f = {"stream": rp.get("stream"), "case": rp.get("case"), "what": rp.get("what"), "observed": rp.get("observed")}
            for k in ("what", "observed", "details", "stream", "case"):
                if out.get(k) is not None:
                    f[k] = out[k]
            if isinstance(out.get("oracle"), str):
                f["what"] = out["oracle"]
            matchers = getattr(mod, "KNOWN", {})
            for kf in load_known():
                if kf.get("property") != pid or kf.get("status") != "known":
                    continue
                pred = matchers.get(kf["id"])
                for cand in (f, dict(rp, **{k: v for k, v in f.items() if v is not None})):
                    try:
                        if pred is not None and pred(cand):
                            print(f"KNOWN-FINDING: property={pid} {kf['what']} [{kf['id']}; matched by this replay]")
                            return 0
                    except Exception:
                        pass
            print(f"VIOLATION property={pid} replay={args.replay}")
            return 1
    t0 = time.time()
    if args.no_build:
        acc = {"obligations": 0, "discharged": 0, "names": [], "assumptions": {}, "problems": [], "build_s": 0}
    else:
        acc = build_and_account(ctx, mod)
    ctx.log(f"obligations={acc['obligations']} discharged={acc['discharged']} build={acc.get('build_s', 0):.1f}s")
    try:
        corr = mod.correspond(ctx)
    except Exception as e:
        corr = Corr()
        corr.errors.append("correspondence crashed: " + traceback.format_exc()[-2500:])
    ctx.log(f"correspondence: {corr.evaluations} evaluations, {len(corr.nontrivial)} distinct non-trivial, "
            f"{len(corr.disagreements)} disagreements, {len(corr.failures)} oracle failures, {len(corr.errors)} errors")
    lines, violations = decide(ctx, mod, acc, corr)
    for ln in lines:
        print(ln, flush=True)
    write_evidence(ctx, mod, acc, corr, violations, time.time() - t0)
    return 1 if violations else 0
