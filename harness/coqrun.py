"""Driving Coq from the checks: project file, incremental make (under a lock), compiling a
Props file while capturing `Print Assumptions`, and evaluating generated case files with
vm_compute (sharded over processes).  Also the Python->Gallina literal renderers."""
import fcntl
import hashlib
import os
import re
import subprocess
import time
from concurrent.futures import ThreadPoolExecutor
from contextlib import contextmanager

VERIF = os.path.dirname(os.path.dirname(os.path.abspath(__file__)))
COQ = os.path.join(VERIF, "coq")
BUILD = os.path.join(VERIF, "build")
_ALT_REPO = os.environ.get("VERIF_REPO", "/repo")
if os.path.realpath(_ALT_REPO) != "/repo":
    # development aid (mutation trials against a scratch worktree while other checks run): use a private
    # copy of the Coq tree so that regenerated Gen files and .vo files do not disturb /verif/coq.
    _tag = hashlib.sha1(os.path.realpath(_ALT_REPO).encode()).hexdigest()[:10]
    BUILD = os.path.join(VERIF, "build", "alt-" + _tag)
    os.makedirs(BUILD, exist_ok=True)
    # Gen/ is copied too: like /repo's own tree after setup, the private tree starts from the Gen files of the unchanged
    # source, so that when a translator refuses the changed source the model still builds (from those files) and the
    # failing-input search can run
    subprocess.run(["rsync", "-a", "--delete", "--exclude", ".Makefile.d", COQ + "/", os.path.join(BUILD, "coq") + "/"], check=True)
    COQ = os.path.join(BUILD, "coq")
LOGICAL = "QV"
SUBDIRS = ["Common", "Gen", "Model", "Proofs", "Props"]
NPROC = int(os.environ.get("VERIF_JOBS", "16"))

FORBIDDEN = re.compile(
    r"\b(Admitted|admit|Axiom|Axioms|Parameter|Parameters|Conjecture|Conjectures|Admit Obligations|"
    r"Unset Guard Checking|Unset Positivity Checking|Unset Universe Checking|bypass_check|"
    r"type-in-type|impredicative-set|native_compute)\b"
)


@contextmanager
def build_lock():
    os.makedirs(BUILD, exist_ok=True)
    with open(os.path.join(BUILD, ".build.lock"), "w") as fh:
        fcntl.flock(fh, fcntl.LOCK_EX)
        try:
            yield
        finally:
            fcntl.flock(fh, fcntl.LOCK_UN)


def write_if_changed(path, text):
    os.makedirs(os.path.dirname(path), exist_ok=True)
    try:
        with open(path) as fh:
            if fh.read() == text:
                return False
    except FileNotFoundError:
        pass
    with open(path, "w") as fh:
        fh.write(text)
    return True


def all_v_files():
    out = []
    for sd in SUBDIRS:
        d = os.path.join(COQ, sd)
        if not os.path.isdir(d):
            continue
        for fn in sorted(os.listdir(d)):
            if fn.endswith(".v"):
                out.append(f"{sd}/{fn}")
    return out


def forbidden_scan():
    """The 'declare no axiom / leave no Admitted' gate over every source file of the development."""
    hits = []
    for rel in all_v_files():
        with open(os.path.join(COQ, rel)) as fh:
            txt = fh.read()
        # strip comments (non-nested is enough: we never nest) and string literals
        txt2 = re.sub(r"\(\*.*?\*\)", " ", txt, flags=re.S)
        txt2 = re.sub(r'"(?:[^"]|"")*"', '""', txt2)
        for m in FORBIDDEN.finditer(txt2):
            hits.append(f"{rel}: {m.group(0)}")
    return hits


def ensure_project():
    files = all_v_files()
    text = f"-Q . {LOGICAL}\n-arg -w -arg -notation-overridden,-deprecated-hint-without-locality,-deprecated-instance-without-locality,-ambiguous-paths\n" + "\n".join(files) + "\n"
    changed = write_if_changed(os.path.join(COQ, "_CoqProject"), text)
    if changed or not os.path.exists(os.path.join(COQ, "Makefile")):
        subprocess.run(["coq_makefile", "-f", "_CoqProject", "-o", "Makefile"], cwd=COQ, check=True,
                       stdout=subprocess.DEVNULL, stderr=subprocess.DEVNULL)
        # dependency file must be recomputed
        try:
            os.remove(os.path.join(COQ, ".Makefile.d"))
        except FileNotFoundError:
            pass


def make(targets, timeout=3000):
    """Full .vo build of the given targets (never -vos). Returns (ok, output)."""
    with build_lock():
        ensure_project()
        t0 = time.time()
        ok, out = False, ""
        for attempt in range(3):
            try:
                p = subprocess.run(["timeout", str(timeout), "make", f"-j{NPROC}", "--no-print-directory"] + list(targets),
                                   cwd=COQ, stdout=subprocess.PIPE, stderr=subprocess.STDOUT, text=True)
                ok = p.returncode == 0
                out = p.stdout
            except Exception as e:  # pragma: no cover
                ok, out = False, repr(e)
            # a failure without any Coq diagnostic (a coqc killed under memory pressure, a launch failure) is
            # retried; a genuine error names a file ("File ...") or says "Error"
            if ok or 'File "' in out or "Error" in out or p.returncode == 124:
                break
            time.sleep(5 * (attempt + 1))
        return ok, out, time.time() - t0


def coqc_file(path, timeout=600, cwd=None):
    p = subprocess.run(["timeout", str(timeout), "coqc", "-Q", COQ, LOGICAL, "-w",
                        "-notation-overridden,-deprecated-hint-without-locality,-deprecated-instance-without-locality,-ambiguous-paths",
                        path],
                       cwd=cwd or os.path.dirname(path), stdout=subprocess.PIPE, stderr=subprocess.STDOUT, text=True)
    return p.returncode, p.stdout


def theorems_in(path):
    with open(path) as fh:
        txt = fh.read()
    txt = re.sub(r"\(\*.*?\*\)", " ", txt, flags=re.S)
    return re.findall(r"^\s*(?:Theorem|Corollary)\s+([A-Za-z0-9_']+)", txt, flags=re.M)


def print_assumption_targets(path):
    with open(path) as fh:
        txt = fh.read()
    txt = re.sub(r"\(\*.*?\*\)", " ", txt, flags=re.S)
    return re.findall(r"^\s*Print Assumptions\s+([A-Za-z0-9_'.]+)\s*\.", txt, flags=re.M)


def parse_assumptions(output, targets):
    """coqc prints one block per `Print Assumptions`: either "Closed under the global context" or
    "Axioms:" followed by `name : type` entries (types may span indented lines).  Blocks are matched
    to the commands in source order; Props files print nothing else."""
    blocks = []
    cur = None
    for ln in output.splitlines():
        if ln.startswith("Closed under the global context"):
            blocks.append([])
            cur = None
        elif ln.startswith("Axioms:"):
            cur = []
            blocks.append(cur)
        elif cur is not None:
            m2 = re.match(r"^([A-Za-z_][A-Za-z0-9_'.]*)\s*:", ln)
            m3 = re.match(r"^([A-Za-z_][A-Za-z0-9_'.]*)\s*$", ln)   # name alone; ": type" follows indented
            if m2:
                cur.append(m2.group(1))
            elif m3:
                cur.append(m3.group(1))
            elif ln and not ln[0].isspace():
                cur = None
    if len(blocks) != len(targets):
        return None
    return {t: b for t, b in zip(targets, blocks)}


def compile_props(pid, timeout=900):
    """(Re)compile Props/<pid>.v capturing its output; dependencies must be built already."""
    path = os.path.join(COQ, "Props", f"{pid}.v")
    with build_lock():
        rc, out = coqc_file(path, timeout=timeout, cwd=COQ)
    return rc == 0, out


# ----------------------------------------------------------------------------------------------
# literal rendering

def cz(i):
    i = int(i)
    if abs(i) >= 10 ** 30:  # huge decimal literals are slow to parse; hexadecimal ones are not
        return f"(-{hex(-i)})%Z" if i < 0 else f"({hex(i)})%Z"
    return f"({i})%Z"


def cn(i):
    return f"{int(i)}%N"


def cnat(i):
    assert 0 <= int(i) < 5000
    return f"{int(i)}%nat"


def cbool(b):
    return "true" if b else "false"


def cstr(s):
    """ASCII only. Printable strings become literals, anything else an explicit byte list."""
    if isinstance(s, bytes):
        s = s.decode("latin-1")
    if all(32 <= ord(ch) <= 126 for ch in s):
        return '"' + s.replace('"', '""') + '"%string'
    assert all(ord(ch) < 256 for ch in s), "non-latin1 text is outside the modelled domain"
    return "(bs [" + "; ".join(str(ord(ch)) for ch in s) + "]%N)"


def clist(xs, f=None):
    xs = list(xs)
    if f is not None:
        xs = [f(x) for x in xs]
    return "[" + "; ".join(xs) + "]"


def copt(x, f=None):
    if x is None:
        return "None"
    return f"(Some {f(x) if f else x})"


def cpair(*xs):
    return "(" + ", ".join(xs) + ")"


def cq(fr):
    """fractions.Fraction -> Q literal"""
    return f"(({fr.numerator})%Z # {fr.denominator}%positive)"


# ----------------------------------------------------------------------------------------------
# evaluating case files

HEADER = """Set Printing Width 1000000.
Set Printing Depth 10000000.
From Coq Require Import ZArith NArith List String Ascii Bool QArith.
Import ListNotations.
Require Import QV.Common.Corr.
"""


def _run_shard(args):
    """Run one case shard. A shard that dies without a Coq diagnostic (killed by the OOM killer, failed to
    launch under load) is retried; a genuine Coq error ("Error:" in the output) is returned at once."""
    idx, path, timeout = args
    rc, out = 1, ""
    for attempt in range(4):
        try:
            rc, out = coqc_file(path, timeout=timeout, cwd=os.path.dirname(path))
        except Exception as e:  # launch failure
            rc, out = 1, "launch failure: " + repr(e)
        if rc == 0 or "Error:" in out or rc == 124:
            break
        time.sleep(2 + 3 * attempt)
    return idx, rc, out


def _case_dir(tag):
    """Per-process directory for generated case files (two concurrent runs of one property must not clobber each
    other's shards); directories left behind by processes that no longer exist are removed."""
    import shutil
    root = os.path.join(BUILD, "cases")
    os.makedirs(root, exist_ok=True)
    for name in os.listdir(root):
        base, _, pid = name.rpartition(".")
        if base == tag and pid.isdigit() and int(pid) != os.getpid() and not os.path.exists(f"/proc/{pid}"):
            shutil.rmtree(os.path.join(root, name), ignore_errors=True)
    d = os.path.join(root, f"{tag}.{os.getpid()}")
    os.makedirs(d, exist_ok=True)
    return d


def eval_bad_indices(tag, requires, prelude, check_fn, cases, shard=400, timeout=3000, ty=None):
    """`cases` are Gallina terms (strings) of one type; `check_fn` is a Gallina function case->bool.
    Returns (bad_global_indices, errors) where errors are shards that failed to compile.
    Each shard prints `= [i; j; ...]` with the local indices where check_fn is false."""
    os.makedirs(BUILD, exist_ok=True)
    d = _case_dir(tag)
    for fn in os.listdir(d):
        try:
            os.remove(os.path.join(d, fn))
        except OSError:
            pass
    jobs = []
    for k in range(0, len(cases), shard):
        chunk = cases[k:k + shard]
        name = f"S{k // shard:05d}"
        path = os.path.join(d, name + ".v")
        tyann = f" : list ({ty})" if ty else ""
        body = (HEADER + "\n".join(f"Require Import {r}." for r in requires) + "\n" + prelude + "\n"
                + f"Definition cases{tyann} :=\n  [ " + "\n  ; ".join(chunk) + " ].\n"
                + f"Eval vm_compute in (bad_idx ({check_fn}) cases).\n")
        with open(path, "w") as fh:
            fh.write(body)
        jobs.append((k, path, timeout))
    bad, errors = [], []
    with ThreadPoolExecutor(max_workers=NPROC) as ex:
        for k, rc, out in ex.map(_run_shard, jobs):
            if rc != 0:
                errors.append((k, out[-2000:]))
                continue
            m = re.search(r"=\s*(\[.*?\])\s*:\s*list", out, flags=re.S)
            if not m:
                errors.append((k, "unparsable: " + out[-1000:]))
                continue
            for num in re.findall(r"\d+", m.group(1)):
                bad.append(k + int(num))
    return sorted(bad), errors


def eval_terms(tag, requires, prelude, terms, timeout=600):
    """Evaluate a few terms with vm_compute and return the printed results (raw text each)."""
    path = os.path.join(_case_dir(tag), "E" + hashlib.sha1("\n".join(terms).encode()).hexdigest()[:10] + ".v")
    body = HEADER + "\n".join(f"Require Import {r}." for r in requires) + "\n" + prelude + "\n"
    for t in terms:
        body += f'Eval vm_compute in ({t}).\n'
    with open(path, "w") as fh:
        fh.write(body)
    rc, out = coqc_file(path, timeout=timeout, cwd=os.path.dirname(path))
    if rc != 0:
        return None, out
    parts = re.findall(r"^\s*=\s*(.*?)\n\s*:\s", out, flags=re.S | re.M)
    return parts, out


def coqchk(pid, timeout=3000):
    """coqchk -o on Props/<pid>.vo (re-checks the file and its whole dependency cone with the independent checker).
    -> dict(status: ok|failed|timeout, axioms: [...], seconds, tail)"""
    t0 = time.time()
    try:
        p = subprocess.run(["timeout", str(timeout), "coqchk", "-silent", "-o", "-Q", ".", LOGICAL, f"{LOGICAL}.Props.{pid}"],
                           cwd=COQ, stdout=subprocess.PIPE, stderr=subprocess.STDOUT, text=True)
        out, rc = p.stdout, p.returncode
    except Exception as e:  # pragma: no cover
        out, rc = repr(e), 1
    axioms = []
    m = re.search(r"\* Axioms:(.*?)\n\s*\n\* ", out, flags=re.S)
    if m:
        axioms = [a.strip() for a in m.group(1).split("\n") if a.strip() and a.strip() != "<none>"]
    status = "ok" if rc == 0 and "CONTEXT SUMMARY" in out else ("timeout" if rc == 124 else "failed")
    return {"status": status, "axioms": axioms, "seconds": time.time() - t0, "tail": out[-1500:] if status != "ok" else ""}
