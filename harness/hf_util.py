"""Helpers shared by harness/props/c11.py and c15.py."""
import time

from . import coqrun


def eval_retry(tag, requires, prelude, check_fn, terms, shard, ty, retries=2):
    """coqrun.eval_bad_indices, re-running (alone, one after the other) the shards that died without a Coq error
    message — on a busy machine a coqc process can be killed for memory; a shard that fails with a message is a real
    error and is reported."""
    bad, errors = coqrun.eval_bad_indices(tag, requires, prelude, check_fn, terms, shard=shard, ty=ty)
    for attempt in range(retries):
        silent = [(k, e) for k, e in errors if not str(e).strip() or "Out of memory" in str(e) or "Killed" in str(e)]
        if not silent:
            break
        errors = [(k, e) for k, e in errors if (k, e) not in silent]
        time.sleep(2 + 3 * attempt)
        for k, _ in silent:
            b2, e2 = coqrun.eval_bad_indices(f"{tag}r{attempt}_{k}", requires, prelude, check_fn, terms[k:k + shard],
                                             shard=max(1, shard // 2), ty=ty)
            bad.extend(k + i for i in b2)
            errors.extend((k + kk, ee) for kk, ee in e2)
    return sorted(set(bad)), errors
